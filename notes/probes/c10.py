import sys, os, warnings, random, math
warnings.simplefilter("ignore")
sys.path.insert(0, os.environ.get("NIXREPO", "/repo"))
import numpy as np, nixio as nix
rng = random.Random(int(os.environ.get("SEED","1")))
problems={}; nops=0
def note(k,d): problems.setdefault(k,[]).append(d)
GEN={"int":lambda: rng.choice([0,1,-1,2**63-1,-2**63,rng.randint(-10**6,10**6), np.int32(7), np.int64(-3)]),
     "float":lambda: rng.choice([0.5,-0.0,float("nan"),float("inf"),5e-324,1e308,np.float32(2.5),np.float64(1.25)]),
     "str":lambda: rng.choice(["","a","üñí","x y","long"*40]),
     "bool":lambda: rng.choice([True,False,np.bool_(True)])}
CLS={"int":int,"float":float,"str":str,"bool":bool}
def pyv(t,v):
    return CLS[t](v)
def same(t,a,b):
    if t=="float":
        a=float(a); b=float(b)
        return (math.isnan(a) and math.isnan(b)) or (a==b and math.copysign(1,a)==math.copysign(1,b))
    return CLS[t](a)==CLS[t](b)
def typeok(t,v):
    if t=="int": return isinstance(v,(int,np.integer)) and not isinstance(v,(bool,np.bool_))
    if t=="float": return isinstance(v,(float,np.floating))
    if t=="str": return isinstance(v,str)
    return isinstance(v,(bool,np.bool_))
def check(prop,t,model,tag):
    got=prop.values
    if len(got)!=len(model) or not all(typeok(t,g) and same(t,g,m) for g,m in zip(got,model)): note("values",(t,tag,[repr(x) for x in got][:4],[repr(x) for x in model][:4]))
for case in range(int(os.environ.get("N","150"))):
    p="/tmp/scratch/x/c10_%d.nix"%os.getpid()
    f=nix.File.open(p, nix.FileMode.Overwrite); s=f.create_section("s","t")
    t=rng.choice(list(GEN)); 
    if rng.random()<0.2:
        prop=s.create_property("p",{"int":nix.DataType.Int64,"float":nix.DataType.Double,"str":nix.DataType.String,"bool":nix.DataType.Bool}[t]); model=[]
    else:
        model=[GEN[t]() for _ in range(rng.randint(1,6))]; prop=s.create_property("p",list(model))
    check(prop,t,model,"create")
    for stepi in range(rng.randint(1,8)):
        op=rng.choice(["assign","extend","clear","bad_assign","bad_extend","reopen","dict_set","attrs"]); nops+=1
        try:
            if op=="assign":
                new=[GEN[t]() for _ in range(rng.randint(1,5))]; prop.values=rng.choice([new,tuple(new)]); model=new
            elif op=="extend":
                new=[GEN[t]() for _ in range(rng.randint(1,4))]; prop.extend_values(new); model=model+new
            elif op=="clear":
                rng.choice([lambda: setattr(prop,"values",None), lambda: setattr(prop,"values",[]), prop.delete_values])(); model=[]
            elif op in ("bad_assign","bad_extend"):
                ot=rng.choice([x for x in GEN if x!=t]); n=rng.randint(1,4); pos=rng.randrange(n)
                cand=[GEN[t]() for _ in range(n)]; mixed=rng.random()<0.6 and n>1
                if mixed: cand[pos]=GEN[ot]()
                else: cand=[GEN[ot]() for _ in range(n)]
                # numpy scalars of ot may still be acceptable? (np.float32 into float is same type class) - candidates are of other class by construction
                try:
                    if op=="bad_assign": prop.values=cand
                    else: prop.extend_values(cand)
                    note("wrong-type-accepted",(t,ot,mixed,pos,op))
                    model = cand if op=="bad_assign" else model+cand
                except TypeError: pass
                except Exception as ex: note("wrong-type-other-exc",(t,ot,mixed,pos,op,type(ex).__name__,str(ex)[:50]))
            elif op=="reopen":
                f.close(); f=nix.File.open(p, nix.FileMode.ReadWrite); s=f.sections["s"]; prop=s.props["p"]
            elif op=="dict_set":
                new=[GEN[t]() for _ in range(rng.randint(1,3))]; s["p"]=new if len(new)>1 or rng.random()<0.5 else new[0]; model=new
                g=s["p"]; g=g if isinstance(g,list) else [g]
                if len(g)!=len(model) or not all(same(t,a,b_) for a,b_ in zip(g,model)): note("dict-get",(t,))
            elif op=="attrs":
                for a,v in [("unit",rng.choice([None,"mV"," m V"])),("definition",rng.choice([None,"","ü"])),("uncertainty",rng.choice([None,0.5,1])),("reference",rng.choice([None,"r"])),("dependency",rng.choice([None,"d"])),("dependency_value",rng.choice([None,"dv"])),("value_origin",rng.choice([None,"vo"]))]:
                    setattr(prop,a,v); g=getattr(prop,a)
                    e=v
                    if a=="unit" and v: e=v.replace(" ","")
                    if a=="uncertainty" and v is not None: e=float(v)
                    if g!=e: note("attr",(a,repr(v),repr(g)))
        except Exception as ex:
            note("op-raised",(t,op,type(ex).__name__,str(ex)[:80])); break
        check(prop,t,model,op)
        if ("p" in s)!=True or len(s)!=1 or [k for k,_ in s.items()]!=["p"]: note("dict-view",(op,))
    f.close()
print("ops",nops)
for k,v in sorted(problems.items(), key=lambda kv:-len(kv[1])): print(len(v),k,[str(x)[:200] for x in v[:4]])
