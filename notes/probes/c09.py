import sys, os, warnings, random, itertools, math
warnings.simplefilter("ignore")
sys.path.insert(0, os.environ.get("NIXREPO", "/repo"))
from nixio.util import units
from nixio.exceptions import InvalidUnit
rng = random.Random(1)
PREF = {"":0,"Y":24,"Z":21,"E":18,"P":15,"T":12,"G":9,"M":6,"k":3,"h":2,"da":1,"d":-1,"c":-2,"m":-3,"u":-6,"n":-9,"p":-12,"f":-15,"a":-18,"z":-21,"y":-24}
UNITS = ["m","g","s","A","K","mol","cd","Hz","N","Pa","J","W","C","V","F","S","Wb","T","H","lm","lx","Bq","Gy","Sv","kat","l","L","Ohm","%","dB","rad"]
POW = ["", "1","2","3","-1","-2","-3"]
def mk(p,u,w): return p+u+("^"+w if w else "")
# ambiguity check
table={}
for p in PREF:
    for u in UNITS:
        table.setdefault(p+u,[]).append((p,u))
amb={k:v for k,v in table.items() if len(v)>1}
print("ambiguous strings:", amb)
viol={}; n=0
def note(k,d): viol.setdefault(k,[]).append(d)
for p in PREF:
    for u in UNITS:
        for w in POW:
            s=mk(p,u,w); n+=1
            if s[:len(p)+len(u)] in amb: continue
            if not units.is_atomic(s): note("not-atomic", s)
            if not units.is_si(s): note("not-si", s)
            got=units.split(s)
            if got!=(p,u,w): note("split", (s,got))
for u in UNITS:
    for w in POW:
        for p1 in PREF:
            for p2 in PREF:
                a,b=mk(p1,u,w),mk(p2,u,w); n+=1
                if a[:len(p1)+len(u)] in amb or b[:len(p2)+len(u)] in amb: continue
                if not units.scalable(a,b): note("not-scalable",(a,b)); continue
                exp=10.0**((PREF[p1]-PREF[p2])*(int(w) if w else 1))
                got=units.scaling(a,b)
                if not math.isclose(got,exp,rel_tol=1e-12): note("scaling",(a,b,exp,got))
# cross-unit / cross-power
for _ in range(20000):
    u1,u2=rng.choice(UNITS),rng.choice(UNITS); w1,w2=rng.choice(POW),rng.choice(POW); p1,p2=rng.choice(list(PREF)),rng.choice(list(PREF))
    if (u1,w1 or "1")==(u2,w2 or "1"): continue
    if (w1 in ("","1")) and (w2 in ("","1")) and u1==u2: continue
    a,b=mk(p1,u1,w1),mk(p2,u2,w2); n+=1
    if p1+u1 in amb or p2+u2 in amb: continue
    # same string could arise (e.g. 'mm' vs ...) skip if equal strings
    if p1+u1==p2+u2 and (w1 or "")==(w2 or ""): continue
    if units.scalable(a,b): note("scalable-different",(a,b))
    else:
        try: units.scaling(a,b); note("scaling-not-refused",(a,b))
        except InvalidUnit: pass
# composition
for _ in range(20000):
    u=rng.choice(UNITS); w=rng.choice(POW); ps=[rng.choice(list(PREF)) for _ in range(3)]
    a,b,c=[mk(p,u,w) for p in ps]; n+=1
    try:
        ab,bc,ac,ba=units.scaling(a,b),units.scaling(b,c),units.scaling(a,c),units.scaling(b,a)
    except InvalidUnit: continue
    if not math.isclose(ab*bc,ac,rel_tol=1e-12): note("compose",(a,b,c,ab*bc,ac))
    if not math.isclose(ab*ba,1.0,rel_tol=1e-12): note("invert",(a,b,ab*ba))
# compounds
for _ in range(5000):
    k=rng.randint(2,4); parts=[mk(rng.choice(list(PREF)),rng.choice(UNITS),rng.choice(POW)) for _ in range(k)]
    s=parts[0]
    for q in parts[1:]: s+=rng.choice("*/")+q
    n+=1
    if not units.is_compound(s): note("not-compound",s)
    if not units.is_si(s): note("compound-not-si",s)
# sanitizer
alpha=[" ","m","u","µ","μ","V","s","k","/","*","^","1","2"]
for _ in range(100000):
    s="".join(rng.choice(alpha) for _ in range(rng.randint(0,6))); n+=1
    t=units.sanitizer(s)
    if units.sanitizer(t)!=t: note("sanitizer",(s,t,units.sanitizer(t)))
print("evaluations",n)
for k,v in viol.items():
    print(k,len(v), v[:6])
