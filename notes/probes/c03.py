import sys, os, warnings, random, uuid
warnings.simplefilter("ignore")
sys.path.insert(0, os.environ.get("NIXREPO", "/repo"))
import numpy as np, nixio as nix
from nixio.exceptions import DuplicateName
from collections import OrderedDict
rng = random.Random(int(os.environ.get("SEED","1")))
problems={}; nchecks=0
def note(k,d): problems.setdefault(k,[]).append(d)
NAMEPOOL=["zz","aa","mm","a.b","..","ü∂"," lead","trail ","x"*300,"0123456789abcdef0123456789abcdef","12345678-1234-5678-1234-567812345678","A","a","n1","n2","n3","n4","n5","n6","n7","n8","n9","n10","n11"]
def nameclass(n):
    try: uuid.UUID(n); return "uuidlike"
    except ValueError: pass
    if len(n)>100: return "long"
    if any(ord(c)>127 for c in n): return "nonascii"
    return "plain"
def check(cont, model, label):
    """model: list of (name,id)"""
    global nchecks; nchecks+=1
    try:
        if len(cont)!=len(model): note("len",(label,len(cont),len(model)))
        it=[(x.name,x.id) for x in cont]
        if it!=model: note("iter-order",(label,[n for n,_ in it][:6],[n for n,_ in model][:6]))
        for i,(n,id_) in enumerate(model):
            if cont[i].id!=id_: note("pos-index",(label,i))
            if cont[i-len(model)].id!=id_: note("neg-index",(label,i))
            try:
                if cont[n].id!=id_: note("by-name-wrong",(label,nameclass(n)))
            except KeyError: note("by-name-keyerror",(label,nameclass(n)))
            try:
                if cont[id_].name!=n: note("by-id-wrong",(label,))
            except KeyError: note("by-id-keyerror",(label,))
            if n not in cont: note("name-not-in",(label,nameclass(n)))
            if id_ not in cont: note("id-not-in",(label,))
            if cont[i] not in cont: note("entity-not-in",(label,))
        ids=[k for k,_ in cont.items()]
        if ids!=[i for _,i in model]: note("items",(label,))
        for bad in ("absent-name", str(uuid.uuid4())):
            if bad in cont: note("absent-in",(label,bad[:8]))
            try: cont[bad]; note("absent-getitem",(label,))
            except KeyError: pass
        for i in (len(model), -len(model)-1):
            try: cont[i]; note("oob-index-accepted",(label,i))
            except IndexError: pass
    except Exception as ex:
        note("check-raised",(label,type(ex).__name__,str(ex)[:80]))
allids=set()
for case in range(int(os.environ.get("N","30"))):
    p="/tmp/scratch/x/c03_%d.nix"%os.getpid()
    f=nix.File.open(p, nix.FileMode.Overwrite)
    b=f.create_block("blk","t"); sec=f.create_section("sec","t"); src0=b.create_source("src0","t"); src1=src0.create_source("nested","t"); ssec=sec.create_section("nested","t")
    creators={
     "file.blocks": (f.blocks, lambda n: f.create_block(n,"t")),
     "file.sections": (f.sections, lambda n: f.create_section(n,"t")),
     "block.data_arrays": (b.data_arrays, lambda n: b.create_data_array(n,"t",data=[1.])),
     "block.data_frames": (b.data_frames, lambda n: b.create_data_frame(n,"t",col_dict=OrderedDict([("a",int)]))),
     "block.tags": (b.tags, lambda n: b.create_tag(n,"t",[0.])),
     "block.multi_tags": (b.multi_tags, lambda n: b.create_multi_tag(n,"t",b.data_arrays[0])),
     "block.groups": (b.groups, lambda n: b.create_group(n,"t")),
     "block.sources": (b.sources, lambda n: b.create_source(n,"t")),
     "source.sources(depth2)": (src1.sources, lambda n: src1.create_source(n,"t")),
     "section.sections(depth2)": (ssec.sections, lambda n: ssec.create_section(n,"t")),
     "section.props": (ssec.props, lambda n: ssec.create_property(n,[1])),
    }
    label=rng.choice(list(creators)); cont,create=creators[label]
    if label=="block.multi_tags": b.create_data_array("posarr","t",data=[1.,2.])
    model=[(x.name,x.id) for x in cont]
    for stepi in range(rng.randint(8,22)):
        op=rng.choice(["create","create","create","delete","dup"])
        if op=="create":
            n=rng.choice(NAMEPOOL)
            if n in [m for m,_ in model]: op="dup"
            else:
                try:
                    e=create(n)
                    if e.name!=n: note("created-name",(label,n[:10],e.name[:10]))
                    try: 
                        if str(uuid.UUID(e.id))!=e.id: note("id-not-canonical",(label,e.id))
                    except ValueError: note("id-not-uuid",(label,e.id))
                    if e.id in allids: note("id-reused",(label,))
                    allids.add(e.id); model.append((n,e.id))
                except Exception as ex: note("create-refused",(label,nameclass(n),type(ex).__name__,str(ex)[:60]))
        if op=="dup" and model:
            n=rng.choice(model)[0]
            try: create(n); note("dup-accepted",(label,nameclass(n)))
            except DuplicateName: pass
            except Exception as ex: note("dup-wrong-exc",(label,nameclass(n),type(ex).__name__))
        if op=="delete" and model:
            i=rng.randrange(len(model)); n,id_=model[i]
            key=rng.choice([n,id_,i,i-len(model),"obj"])
            if key=="obj": key=cont[i]
            try: del cont[key]; model.pop(i)
            except Exception as ex: note("delete-raised",(label,nameclass(n),type(key).__name__,type(ex).__name__,str(ex)[:50]))
        check(cont,model,label)
    f.close(); f=nix.File.open(p, nix.FileMode.ReadOnly)
    b=f.blocks["blk"] if "blk" in [x.name for x in f.blocks] else None
    try:
        cont2={"file.blocks":lambda:f.blocks,"file.sections":lambda:f.sections,"block.data_arrays":lambda:b.data_arrays,"block.data_frames":lambda:b.data_frames,"block.tags":lambda:b.tags,"block.multi_tags":lambda:b.multi_tags,"block.groups":lambda:b.groups,"block.sources":lambda:b.sources,
           "source.sources(depth2)":lambda:b.sources["src0"].sources["nested"].sources,"section.sections(depth2)":lambda:f.sections["sec"].sections["nested"].sections,"section.props":lambda:f.sections["sec"].sections["nested"].props}[label]()
        check(cont2,model,label+"@reopen")
    except Exception as ex: note("reopen-raised",(label,type(ex).__name__,str(ex)[:60]))
    f.close()
print("checks",nchecks)
for k,v in sorted(problems.items(), key=lambda kv:-len(kv[1])): print(len(v),k,sorted(set(map(str,v)))[:4])
