import sys, os, warnings, random
warnings.simplefilter("ignore")
sys.path.insert(0, os.environ.get("NIXREPO", "/repo"))
import numpy as np, nixio as nix
rng = random.Random(int(os.environ.get("SEED","1")))
problems={}; ncase=0; nreads=0; comp_seen={}
def note(k,d): problems.setdefault(k,[]).append(d)
DT=[np.uint8,np.uint16,np.uint32,np.uint64,np.int8,np.int16,np.int32,np.int64,np.float32,np.float64,np.bool_,"text"]
def values(dt, shape):
    n=int(np.prod(shape))
    if dt=="text":
        pool=["","a","üñí","x y","long"*30,"∂"]; return np.array([rng.choice(pool) for _ in range(n)],dtype=object).reshape(shape)
    if dt==np.bool_: return np.array([rng.random()<0.5 for _ in range(n)],dtype=np.bool_).reshape(shape)
    if np.issubdtype(dt,np.integer):
        ii=np.iinfo(dt); pool=[ii.min,ii.max,0,1,ii.max-1]; return np.array([rng.choice(pool) for _ in range(n)],dtype=dt).reshape(shape)
    fi=np.finfo(dt); pool=[np.nan,np.inf,-np.inf,-0.0,0.0,fi.max,fi.tiny,fi.smallest_subnormal,1.5]
    return np.array([rng.choice(pool) for _ in range(n)],dtype=dt).reshape(shape)
def eq(a,b,dt):
    if a.shape!=b.shape: return False
    if dt=="text": return a.dtype==object and all(isinstance(x,str) for x in a.ravel()) and a.tolist()==b.tolist()
    if a.dtype!=b.dtype: return False
    if a.dtype.kind=="f": return np.array_equal(a.view(np.uint32 if a.dtype==np.float32 else np.uint64), b.view(np.uint32 if a.dtype==np.float32 else np.uint64))
    return np.array_equal(a,b)
def masked_eq(got, model, mask, dt):
    if got.shape!=model.shape: return False
    if dt!="text" and got.dtype!=model.dtype: return False
    if dt=="text" and not (got.dtype==object): return False
    g=got[mask]; m=model[mask]
    if dt=="text": return g.tolist()==m.tolist() and all(isinstance(x,str) for x in got.ravel())
    if g.dtype.kind=="f":
        iv=np.uint32 if g.dtype==np.float32 else np.uint64
        return np.array_equal(np.ascontiguousarray(g).view(iv), np.ascontiguousarray(m).view(iv))
    return np.array_equal(g,m)
COMP=list(nix.Compression)
for case in range(int(os.environ.get("N","150"))):
    p="/tmp/scratch/x/c01_%d.nix"%os.getpid()
    cf,cb,ca=rng.choice(COMP),rng.choice(COMP),rng.choice(COMP)
    f=nix.File.open(p, nix.FileMode.Overwrite, compression=cf); b=f.create_block("b","t",compression=cb)
    dt=rng.choice(DT); rank=rng.randint(1,4); shape=tuple(rng.randint(0,4) for _ in range(rank))
    nixdt = nix.DataType.String if dt=="text" else dt
    path=rng.choice(["data","shape+write","shape+regions"])
    model=values(dt,shape); mask=np.ones(shape,dtype=bool)
    desc=dict(dt=str(dt),shape=shape,comp=(cf.name,cb.name,ca.name),path=path,steps=[])
    try:
        if path=="data": da=b.create_data_array("d","t",dtype=nixdt if dt=="text" else None,data=model,compression=ca)
        else:
            da=b.create_data_array("d","t",dtype=nixdt,shape=shape,compression=ca)
            if path=="shape+write": da.write_direct(model) if rng.random()<0.5 else da.__setitem__(Ellipsis, model)
            else:
                mask[...]=False
                model_vals=model; model=np.zeros(shape,dtype=object if dt=="text" else dt)
                if dt=="text": model[...]=""
                for _ in range(3):
                    sl=tuple(slice(*sorted([rng.randint(0,s),rng.randint(0,s)])) for s in shape)
                    if model_vals[sl].size: da[sl]=model_vals[sl]; model[sl]=model_vals[sl]; mask[sl]=True
    except Exception as ex:
        note("create-raised",(desc,type(ex).__name__,str(ex)[:80])); f.close(); continue
    ncase+=1
    comp=da._h5group.group["data"].compression; comp_seen[(cf.name,cb.name,ca.name,str(comp))]=comp_seen.get((cf.name,cb.name,ca.name,str(comp)),0)+1
    def verify(tag):
        global nreads
        d=f.blocks[0].data_arrays[0]
        try:
            nreads+=1
            if d.shape!=model.shape: note("shape",(desc,tag,d.shape,model.shape)); return
            if len(d)!=model.shape[0] or d.size!=model.size: note("len/size",(desc,tag))
            exp_dt = np.dtype(object) if dt=="text" else np.dtype(dt)
            if d.dtype!=exp_dt: note("dtype",(desc,tag,str(d.dtype)))
            if dt=="text" and d.data_type!=nix.DataType.String: note("data_type",(desc,tag))
            for how in ("[:]","[...]","np.array"):
                got = d[:] if how=="[:]" else (d[...] if how=="[...]" else np.array(d))
                if not masked_eq(got, model, mask, dt): note("whole-read",(desc,tag,how, str(got.ravel()[:4]), str(model.ravel()[:4])))
            if dt!="text":
                buf=np.empty(model.shape,dtype=dt); d.read_direct(buf)
                if not masked_eq(buf,model,mask,dt): note("read_direct",(desc,tag))
            if model.size:
                idx=tuple(rng.randrange(s) for s in model.shape)
                if mask[idx]:
                    one=d[idx]
                    if one.shape!=(1,) or (one[0]!=model[idx] and not (dt!="text" and model[idx]!=model[idx] and one[0]!=one[0])): note("single-element",(desc,tag,str(one)[:40],str(model[idx])[:40]))
                sl=tuple(slice(*sorted([rng.randint(0,s),rng.randint(0,s)])) for s in model.shape)
                reg=d[sl]
                if not masked_eq(reg, model[sl], mask[sl], dt): note("region-read",(desc,tag))
        except Exception as ex:
            note("read-raised",(str(dt),tag,type(ex).__name__,str(ex)[:70]))
    verify("after-create")
    for stepi in range(rng.randint(0,6)):
        op=rng.choice(["whole","region","append","shrink","grow","reopen"]); desc["steps"].append(op)
        try:
            if op=="whole":
                model=values(dt,model.shape); mask=np.ones(model.shape,dtype=bool); da[...]=model if model.size else model
            elif op=="region" and model.size:
                sl=tuple(slice(*sorted([rng.randint(0,s),rng.randint(0,s)])) for s in model.shape); v=values(dt,model[sl].shape)
                if v.size: da[sl]=v; model[sl]=v; mask[sl]=True
            elif op=="append":
                ax=rng.randrange(len(model.shape)); sh=list(model.shape); sh[ax]=rng.randint(0,3); v=values(dt,tuple(sh))
                da.append(v,axis=ax); model=np.concatenate([model,v],axis=ax); mask=np.concatenate([mask,np.ones(v.shape,dtype=bool)],axis=ax)
            elif op=="shrink":
                ns=tuple(rng.randint(0,s) for s in model.shape); da.data_extent=ns; sl=tuple(slice(0,s) for s in ns); model=model[sl].copy(); mask=mask[sl].copy()
            elif op=="grow":
                ns=tuple(s+rng.randint(0,2) for s in model.shape); da.data_extent=ns
                nm=np.zeros(ns,dtype=model.dtype); 
                if dt=="text": nm[...]=""
                nk=np.zeros(ns,dtype=bool); sl=tuple(slice(0,s) for s in model.shape); nm[sl]=model; nk[sl]=mask; model,mask=nm,nk
            elif op=="reopen":
                f.close(); f=nix.File.open(p, rng.choice([nix.FileMode.ReadOnly,nix.FileMode.ReadWrite])); verify("reopen"); f.close(); f=nix.File.open(p, nix.FileMode.ReadWrite); da=f.blocks[0].data_arrays[0]
        except Exception as ex:
            note("step-raised",(str(dt),op,type(ex).__name__,str(ex)[:70])); break
        verify(op)
    f.close(); f=nix.File.open(p, nix.FileMode.ReadOnly); verify("final-reopen"); f.close()
print("cases",ncase,"verifications",nreads)
print("compression resolution seen:", sorted(comp_seen.items())[:30])
for k,v in sorted(problems.items(), key=lambda kv:-len(kv[1])): print(len(v),k,[str(x)[:200] for x in v[:3]])
