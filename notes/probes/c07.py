import sys, os, warnings, random, itertools
warnings.simplefilter("ignore")
sys.path.insert(0, os.environ.get("NIXREPO", "/repo"))
from fractions import Fraction as F
import numpy as np, nixio as nix
from nixio import IndexMode as IM, SliceMode as SM
rng = random.Random(int(os.environ.get("SEED","1")))
f = nix.File.open("/tmp/scratch/x/c07_%s.nix" % os.getpid(), nix.FileMode.Overwrite)
b = f.create_block("b","t")
MODES = [IM.Less, IM.LessOrEqual, IM.GreaterOrEqual]
def expect_index(coords_fn, n, p, mode):
    """coords_fn(i) exact coordinate; n = number of samples or None (unbounded). returns index or None"""
    # search window
    if n is None:
        hi = 5000
    else:
        hi = n
    # monotone non-decreasing coords
    if mode == IM.LessOrEqual:
        best = None
        for i in range(hi):
            if coords_fn(i) <= p: best = i
            else: break
        return best
    if mode == IM.Less:
        best = None
        for i in range(hi):
            if coords_fn(i) < p: best = i
            else: break
        return best
    for i in range(hi):
        if coords_fn(i) >= p: return i
    return None
viol = {}
def note(kind, detail):
    viol.setdefault(kind, []).append(detail)
ncase = 0
# sampled
ivals = ["1","2","0.5","0.25","0.1","0.3","0.001","3","1000"]
offs = ["0","0.1","-0.1","2.5","-2.5","3","-3","3.1","1000", None]
da = b.create_data_array("s","t",data=np.arange(5.))
sd = da.append_sampled_dimension(1.0)
for iv in ivals:
  for off in offs:
    sd.sampling_interval = float(iv); sd.offset = None if off is None else float(off)
    Fi, Fo = F(iv), F(off or "0")
    coord = lambda i: Fo + i*Fi
    pos = []
    for i in [0,1,2,7,60,1999]:
        pos.append(("on", coord(i)))
        for fr in ["0.1","0.5","0.9"]:
            pos.append(("between", coord(i) + F(fr)*Fi))
    pos += [("before<1", Fo - F("0.5")*Fi), ("before>=1", Fo - 3*Fi), ("zero", F(0))]
    for cls, p in pos:
        # skip positions within tolerance band unless exactly on
        k = (p - Fo)/Fi
        frac = k - (k.numerator // k.denominator)
        if frac != 0 and (frac < F("0.05") or frac > F("0.95")): continue
        for m in MODES:
            ncase += 1
            exp = expect_index(coord, None, p, m)
            try: got = int(sd.index_of(float(p), m)); 
            except IndexError: got = None
            if got != exp: note("sampled.index_of", (iv, off, cls, str(p), m.name, "exp", exp, "got", got))
    # range_indices
    for _ in range(40):
        (c1,a),(c2,bb) = rng.choice(pos), rng.choice(pos)
        if a > bb: a,bb = bb,a
        for k_ in (a,bb):
            kk=(k_-Fo)/Fi; fr = kk-(kk.numerator//kk.denominator)
            if fr!=0 and (fr<F("0.05") or fr>F("0.95")): break
        else:
            for sm in (SM.Exclusive, SM.Inclusive):
                ncase += 1
                idx = [i for i in range(0, 2100) if coord(i) >= a and (coord(i) <= bb if sm==SM.Inclusive else coord(i) < bb)]
                exp = (idx[0], idx[-1]) if idx else None
                got = sd.range_indices(float(a), float(bb), sm)
                got = None if got is None else (int(got[0]), int(got[1]))
                if got != exp: note("sampled.range_indices", (iv, off, str(a), str(bb), sm.name, exp, got))
    for i in [0,1,5,100]:
        ncase += 1
        pa = sd.position_at(i)
        if abs(F(pa) - coord(i)) > F(1, 10**9) * max(1, abs(coord(i))): note("position_at", (iv,off,i,pa))
        if int(sd.index_of(pa)) != i: note("roundtrip", (iv, off, i, pa, sd.index_of(pa)))
# range dims
for _ in range(300):
    n = rng.randint(1,8)
    base = rng.choice([-5,0,0,3]); ticks=[]; cur = F(base)
    for i in range(n):
        ticks.append(cur); cur += rng.choice([F(0), F(1), F("0.5"), F(2), F("0.1")])
    da2 = b.create_data_array("r%d"%_, "t", data=np.arange(float(n)))
    rd = da2.append_range_dimension([float(t) for t in ticks])
    coord = lambda i: ticks[i]
    cand = set()
    for t in ticks: cand |= {t, t-F("0.25"), t+F("0.25")}
    cand |= {ticks[0]-3, ticks[-1]+3}
    for p in cand:
        for m in MODES:
            ncase += 1
            exp = expect_index(coord, n, p, m)
            try: got = int(rd.index_of(float(p), m))
            except IndexError: got = None
            if got != exp: note("range.index_of", ([str(t) for t in ticks], str(p), m.name, exp, got))
    cl = sorted(cand)
    for _2 in range(15):
        a, bb = sorted([rng.choice(cl), rng.choice(cl)])
        for sm in (SM.Exclusive, SM.Inclusive):
            ncase += 1
            idx = [i for i in range(n) if ticks[i] >= a and (ticks[i] <= bb if sm==SM.Inclusive else ticks[i] < bb)]
            exp = (idx[0], idx[-1]) if idx else None
            got = rd.range_indices(float(a), float(bb), sm); got = None if got is None else (int(got[0]), int(got[1]))
            if got != exp: note("range.range_indices", ([str(t) for t in ticks], str(a), str(bb), sm.name, exp, got))
    for i in range(n):
        if F(rd.tick_at(i)) != F(float(ticks[i])): note("tick_at", i)
    if list(rd.axis(n)) != [float(t) for t in ticks]: note("axis", 0)
# set dims
for nl in [0,1,2,4,6]:
    da3 = b.create_data_array("set%d"%nl, "t", data=np.arange(float(max(nl,1))))
    st = da3.append_set_dimension(["l%d"%i for i in range(nl)] if nl else None)
    n = nl if nl else None
    coord = lambda i: F(i)
    cand = [F(x) for x in ["-1","-0.5","0","0.5","1","1.5","2","3","3.5","5","5.5","6","10"]]
    for p in cand:
        for m in MODES:
            ncase += 1
            exp = expect_index(coord, n, p, m)
            try: got = int(st.index_of(float(p), m))
            except IndexError: got = None
            if got != exp: note("set.index_of", (nl, str(p), m.name, exp, got))
    for a in cand:
        for bb in cand:
            if a > bb: continue
            for sm in (SM.Exclusive, SM.Inclusive):
                ncase += 1
                idx = [i for i in range(n if n else 50) if F(i) >= a and (F(i) <= bb if sm==SM.Inclusive else F(i) < bb)]
                exp = (idx[0], idx[-1]) if idx else None
                got = st.range_indices(float(a), float(bb), sm); got = None if got is None else (int(got[0]), int(got[1]))
                if got != exp: note("set.range_indices", (nl, str(a), str(bb), sm.name, exp, got))
f.close()
print("cases", ncase)
for k, v in viol.items():
    print(k, len(v)); 
    for d in v[:6]: print("   ", d)
