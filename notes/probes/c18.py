import sys, os, warnings, random, shutil, hashlib
warnings.simplefilter("ignore")
sys.path.insert(0, os.environ.get("NIXREPO", "/repo"))
import numpy as np, h5py, nixio as nix
from nixio.cmd import upgrade
rng = random.Random(int(os.environ.get("SEED","1")))
vs = h5py.string_dtype()
def old_dtype(vt): return np.dtype([("value", vt), ("uncertainty","f8"), ("reference", vs), ("filename", vs), ("encoder", vs), ("checksum", vs)])
class Crash(BaseException): pass
def build(p):
    f = nix.File.open(p, nix.FileMode.Overwrite)
    b = f.create_block("b","t")
    nalias = rng.randint(0,3); recipe={"props":{}, "alias":[]}
    for i in range(nalias):
        d = b.create_data_array("alias%d"%i,"t",data=np.cumsum(np.ones(rng.randint(1,5)))); d.unit=rng.choice(["ms",None]); d.label=rng.choice(["time",None]); d.append_range_dimension()
        recipe["alias"].append(d.name)
    d2 = b.create_data_array("plain","t",data=np.arange(4.)); d2.append_sampled_dimension(1.0); d2.append_set_dimension
    secs = []
    for si in range(rng.randint(0,3)):
        s = f.create_section("s%d"%si,"t"); secs.append("metadata/s%d"%si)
        if rng.random()<0.5:
            s.create_section("sub","t"); secs.append("metadata/s%d/sections/sub"%si)
    ver = rng.choice([(1,0,0),(1,1,0),(1,1,1),(1,2,0)])
    hasid = rng.random()<0.4 or ver>=(1,2,0)
    f.close()
    with h5py.File(p,"a") as h:
        h.attrs["version"] = np.array(ver, dtype=np.int32)
        if not hasid: del h.attrs["id"]
        for n in recipe["alias"]:
            da = h["data/b/data_arrays/"+n]; dim = da["dimensions/1"]; dim[da.attrs["entity_id"]] = da
        for sp in secs:
            props = upgrade.create_h5group(h[sp], "properties")
            for pi in range(rng.randint(0,4)):
                typ = rng.choice(["int","float","str","bool"])
                n = rng.randint(0,4)
                vals = {"int":[rng.randint(-5,5) for _ in range(n)], "float":[rng.choice([0.5,-1.25,float("nan"),1e300]) for _ in range(n)], "str":[rng.choice(["a","üñ","","x y"]) for _ in range(n)], "bool":[rng.random()<0.5 for _ in range(n)]}[typ]
                name = "p%d"%pi
                if ver < (1,1,1):
                    vt = {"int":np.int64,"float":np.float64,"str":vs,"bool":np.bool_}[typ]
                    dt = old_dtype(vt); arr = np.zeros(n, dtype=dt)
                    umode = rng.choice(["none","const","vary"]); rmode = rng.choice(["none","some"])
                    extras=[]
                    for i,v in enumerate(vals):
                        unc = {"none":0.0,"const":0.5,"vary":0.1*(i+1)}[umode]; ref = "r%d"%i if (rmode=="some" and i%2==0) else ""
                        arr[i] = (v, unc, ref, "", "enc" if rng.random()<0.2 else "", "")
                        extras.append((unc, ref))
                    ds = props.create_dataset(name, data=arr, dtype=dt, chunks=True if n else None, maxshape=(None,) if n else None)
                else:
                    vt = {"int":np.int64,"float":np.float64,"str":vs,"bool":np.bool_}[typ]
                    ds = props.create_dataset(name, data=np.array(vals, dtype=vt) if n else np.zeros(0,dtype=vt), dtype=vt, chunks=True if n else None, maxshape=(None,) if n else None)
                ds.attrs["name"]=name; ds.attrs["entity_id"]=nix.util.create_id(); ds.attrs["created_at"]=nix.util.time_to_str(1000); ds.attrs["updated_at"]=nix.util.time_to_str(1000)
                unit = rng.choice([None,"mV"]); defi = rng.choice([None,"defn"])
                if unit: ds.attrs["unit"]=unit
                if defi: ds.attrs["definition"]=defi
                recipe["props"][sp+"/"+name] = (typ, vals, unit, defi)
    return ver, hasid, recipe
def dump(p):
    f = nix.File.open(p, nix.FileMode.ReadOnly)
    try:
        out = {"ver": tuple(int(x) for x in f.version)}
        for sec in f.find_sections():
            for pr in sec.props:
                out["%s/%s"%(sec.id,pr.name)] = (repr(tuple(pr.values)), pr.unit, pr.definition)
        for d in f.blocks[0].data_arrays:
            for dim in d.dimensions:
                if isinstance(dim, nix.RangeDimension): out["dim:"+d.name] = (repr(dim.ticks), dim.unit, dim.label)
            out["data:"+d.name] = repr(d[:].tolist())
        return out
    finally: f.close()
def main_props(dmp): return {k:v for k,v in dmp.items() if "." not in k.split("/")[-1] and k!="ver"}
problems=[]; nfiles=0; ncrash=0
for case in range(int(os.environ.get("N","60"))):
    p="/tmp/scratch/x/c18_%d.nix"%os.getpid()
    ver, hasid, recipe = build(p); shutil.copy(p, p+".orig"); nfiles+=1
    try: pre = dump(p)
    except Exception as ex: problems.append(("pre-dump failed", ver, type(ex).__name__, str(ex)[:80])); continue
    # uninterrupted
    ok = nix.file_upgrade(p)
    if not ok: problems.append(("upgrade returned False", ver, hasid)); continue
    post = dump(p)
    if post["ver"] != (1,2,1): problems.append(("version", post["ver"]))
    if main_props(post) != main_props(pre): problems.append(("content changed", ver, {k:(pre.get(k),post.get(k)) for k in set(pre)|set(post) if pre.get(k)!=post.get(k) and "." not in k.split("/")[-1] and k!="ver"}))
    if upgrade.collect_tasks(p)[0]: problems.append(("tasks left",))
    try: nix.File.open(p, nix.FileMode.ReadWrite).close()
    except Exception as ex: problems.append(("rw open", str(ex)[:60]))
    h1 = hashlib.sha256(open(p,"rb").read()).hexdigest(); nix.file_upgrade(p)
    if h1 != hashlib.sha256(open(p,"rb").read()).hexdigest(): problems.append(("second upgrade changed bytes",))
    # interruptions
    k=1
    while True:
        shutil.copy(p+".orig", p); cnt={"n":0}; real=h5py.File
        class Proxy:
            def __getattr__(self, n): return getattr(h5py, n)
            def File(self, name, mode="r", *a, **kw):
                if mode=="a":
                    cnt["n"]+=1
                    if cnt["n"]==k: raise Crash()
                return real(name, mode=mode, *a, **kw)
        upgrade.h5py = Proxy()
        try: nix.file_upgrade(p); crashed=False
        except Crash: crashed=True
        finally: upgrade.h5py = h5py
        if not crashed: break
        ncrash+=1
        with h5py.File(p,"r") as h: v_after = tuple(int(x) for x in h.attrs["version"])
        if v_after != ver: problems.append(("version raised before completion", ver, k, v_after))
        try: mid = dump(p)
        except Exception as ex: mid=None
        if mid is not None and main_props(mid) != main_props(pre): problems.append(("content differs mid-upgrade", ver, k))
        if not nix.file_upgrade(p): problems.append(("rerun failed", ver, k))
        fin = dump(p)
        if {kk:vv for kk,vv in fin.items()} != {kk:vv for kk,vv in post.items()}: problems.append(("resumed != uninterrupted", ver, k, {kk:(post.get(kk),fin.get(kk)) for kk in set(post)|set(fin) if post.get(kk)!=fin.get(kk)}))
        k+=1
print("files", nfiles, "interruptions", ncrash, "problems", len(problems))
for pr in problems[:15]: print("  ", str(pr)[:400])
