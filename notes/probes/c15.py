import sys, os, warnings, random
warnings.simplefilter("ignore")
sys.path.insert(0, os.environ.get("NIXREPO", "/repo"))
import numpy as np, nixio as nix
rng = random.Random(int(os.environ.get("SEED","1")))
problems={}; nreads=0
def note(k,d): problems.setdefault(k,[]).append(d)
DT=[np.uint8,np.uint16,np.uint32,np.uint64,np.int8,np.int16,np.int32,np.int64,np.float32,np.float64]
def poly(raw, c, o):
    x=raw.astype(np.float64)-(o if o else 0.0)
    if not len(c): return x
    acc=np.zeros_like(x)
    for k,ck in enumerate(c): acc=acc+ck*x**k
    return acc
for case in range(int(os.environ.get("N","150"))):
    p="/tmp/scratch/x/c15_%d.nix"%os.getpid()
    f=nix.File.open(p, nix.FileMode.Overwrite); b=f.create_block("b","t")
    dt=rng.choice(DT); rank=rng.randint(1,3); shape=tuple(rng.randint(1,4) for _ in range(rank))
    if np.issubdtype(dt,np.integer):
        ii=np.iinfo(dt); raw=np.array([rng.choice([0,1,2,5,ii.max,ii.min, 100]) for _ in range(int(np.prod(shape)))],dtype=dt).reshape(shape)
    else: raw=np.array([rng.choice([0.0,1.5,-2.25,1e3,3.0]) for _ in range(int(np.prod(shape)))],dtype=dt).reshape(shape)
    da=b.create_data_array("d","t",data=raw)
    for k in range(rank): da.append_sampled_dimension(1.0)
    tg=b.create_tag("tg","t",[0.0]*rank); tg.extent=[float(s-1) for s in shape]; tg.references.append(da)
    c=[]; o=None
    for stepi in range(rng.randint(1,6)):
        op=rng.choice(["coef","coef","origin","clear_coef","clear_origin"])
        if op=="coef": c=[rng.choice([0.0,1.0,2.0,-0.5,0.25]) for _ in range(rng.randint(1,5))]; da.polynom_coefficients=c
        elif op=="origin": o=rng.choice([0,0.0,2.5,-3,1]); da.expansion_origin=o
        elif op=="clear_coef": c=[]; da.polynom_coefficients=rng.choice([None,[]])
        else: o=None; da.expansion_origin=None
        desc=(str(np.dtype(dt)),shape,c,o,op)
        rawnow=da._h5group.group["data"][...]
        if rawnow.dtype!=raw.dtype or not np.array_equal(rawnow,raw): note("raw-changed",desc)
        calibrated = bool(len(c)) or bool(o)
        exp = poly(raw,c,o) if calibrated else raw
        reads={"[:]":da[:], "[...]":da[...], "np.array":np.array(da), "view":da.get_slice([0]*rank,list(shape))[:], "tagged":tg.tagged_data(0, nix.SliceMode.Inclusive)[:]}
        buf=np.empty(shape,dtype=np.float64 if calibrated else dt); da.read_direct(buf); reads["read_direct"]=buf
        for how,got in reads.items():
            nreads+=1
            if got.dtype!=exp.dtype: note("dtype",(desc,how,str(got.dtype),str(exp.dtype)))
            if got.shape!=exp.shape: note("shape",(desc,how)); continue
            if calibrated:
                with np.errstate(all="ignore"):
                    ok=np.allclose(got,exp,rtol=1e-12,atol=0,equal_nan=True)
                if not ok: note("values",(desc,how,got.ravel()[:3].tolist(),exp.ravel()[:3].tolist()))
            elif not np.array_equal(got,exp): note("raw-values",(desc,how))
        # commutation, exact
        whole=da[:]
        for _ in range(4):
            idx=tuple(rng.choice([rng.randrange(s), slice(*sorted([rng.randint(0,s),rng.randint(0,s)])), slice(None,None,2)]) for s in shape)
            nreads+=1
            a=da[idx]; e=np.asarray(whole[idx]); e=e.reshape((1,)) if e.ndim==0 else e
            if a.shape!=e.shape or not np.array_equal(a,e,equal_nan=True): note("commute",(desc,repr(idx)))
            v=da.get_slice([0]*rank,list(shape))[idx]
            if v.shape!=e.shape or not np.array_equal(v,e,equal_nan=True): note("commute-view",(desc,repr(idx)))
    f.close()
print("reads",nreads)
for k,v in sorted(problems.items(), key=lambda kv:-len(kv[1])): print(len(v),k,[str(x)[:220] for x in v[:3]])
