import sys, os, warnings, random, re
warnings.simplefilter("ignore")
sys.path.insert(0, os.environ.get("NIXREPO", "/repo"))
import numpy as np, nixio as nix
rng = random.Random(int(os.environ.get("SEED","1")))
VE = nix.validator.ValidationError
# --- reference catalogue written from the statement -------------------------------------------
PREFIXES = ["","Y","Z","E","P","T","G","M","k","h","da","d","c","m","u","n","p","f","a","z","y"]
UNITS = ["m","g","s","A","K","mol","cd","Hz","N","Pa","J","W","C","V","F","S","Wb","T","H","lm","lx","Bq","Gy","Sv","kat","l","L","Ohm","%","dB","rad"]
ATOMIC = {}
for p in PREFIXES:
    for u in UNITS:
        ATOMIC.setdefault(p+u, set()).add((p,u))
def atomic(unit):
    m = re.fullmatch(r"(.+?)(\^[+-]?[1-9]\d*)?", unit)
    return m is not None and m.group(1) in ATOMIC
def base(unit):
    m = re.fullmatch(r"(.+?)(\^([+-]?[1-9]\d*))?", unit)
    decs = ATOMIC[m.group(1)]
    # prefer unique
    return {(u, m.group(3) or "") for (_,u) in decs}
def convertible(a, b):
    return atomic(a) and atomic(b) and bool(base(a) & base(b))
def kind(msg):
    return re.sub(r"\d+", "#", msg)
def ref_validate(spec):
    """spec: model of the file; returns set of (objname, errorkind)"""
    out = set()
    for da in spec["arrays"]:
        n = da["name"]
        if len(da["dims"]) != len(da["shape"]): out.add((n, kind(VE.DimensionMismatch)))
        for i,(d,ln) in enumerate(zip(da["dims"], da["shape"]),1):
            if d["kind"]=="range":
                if not d["ticks"]: out.add((n, kind(VE.NoTicks.format(i))))
                else:
                    if len(d["ticks"]) != ln: out.add((n, kind(VE.RangeDimTicksMismatch.format(i))))
                    if not all(a<b for a,b in zip(d["ticks"][:-1], d["ticks"][1:])): out.add((n, kind(VE.UnsortedTicks.format(i))))
                if d["unit"] and not atomic(d["unit"]): out.add((n, kind(VE.InvalidDimensionUnit.format(i))))
            elif d["kind"]=="sample":
                if not d["interval"]: out.add((n, kind(VE.NoSamplingInterval.format(i))))
                elif d["interval"] < 0: out.add((n, kind(VE.InvalidSamplingInterval.format(i))))
                if d["unit"] and not atomic(d["unit"]): out.add((n, kind(VE.InvalidDimensionUnit.format(i))))
            else:
                if d["labels"] and len(d["labels"]) != ln: out.add((n, kind(VE.SetDimLabelsMismatch.format(i))))
    amap = {a["name"]: a for a in spec["arrays"]}
    def dimunits(a): return [ (d["unit"] or "") if d["kind"]!="set" else "" for d in a["dims"]]
    for tg in spec["tags"]:
        n = tg["name"]
        if not tg["position"]: out.add((n, kind(VE.NoPosition)))
        refs = [amap[r] for r in tg["refs"]]
        if refs:
            pl = len(tg["position"])
            if any(pl != len(r["shape"]) for r in refs): out.add((n, kind(VE.PositionDimensionMismatch)))
            if tg["extent"]:
                if len(tg["extent"]) != pl: out.add((n, kind(VE.PositionExtentMismatch)))
                if any(len(tg["extent"]) != len(r["shape"]) for r in refs): out.add((n, kind(VE.ExtentDimensionMismatch)))
            if any(len(dimunits(r)) != len(tg["units"]) for r in refs): out.add((n, kind(VE.ReferenceUnitsMismatch)))
            for r in refs:
                for tu, ru in zip(tg["units"], dimunits(r)):
                    if tu=="" and ru=="": continue
                    if not (tu and ru and convertible(tu, ru)): out.add((n, kind(VE.ReferenceUnitsIncompatible)))
        if any(u and not atomic(u) for u in tg["units"]): out.add((n, kind(VE.InvalidUnit)))
    for o in spec["entities"]:
        if not o["type"]: out.add((o["name"], kind(VE.NoType)))
    return out
# --- build file + spec --------------------------------------------------------------------------
def gen_unit():
    return rng.choice(["s","ms","us","mV","kHz","mmol","mol","mSv","Pa","mPa","cd", None, None])
def build(f):
    spec = {"arrays":[], "tags":[], "entities":[]}
    b = f.create_block("b","t")
    for ai in range(rng.randint(1,4)):
        rank = rng.randint(1,3); shape = tuple(rng.randint(1,4) for _ in range(rank))
        da = b.create_data_array("a%d"%ai,"t",data=np.zeros(shape)); a = {"name":da.name,"shape":shape,"dims":[], "obj":da}
        for k in range(rank):
            kd = rng.choice(["sample","range","set"])
            if kd=="sample":
                iv = rng.choice([0.5,1.0,2.0]); u = gen_unit(); da.append_sampled_dimension(iv, unit=u, offset=rng.choice([None,1.0]))
                a["dims"].append({"kind":"sample","interval":iv,"unit":u})
            elif kd=="range":
                t = [float(i)*0.5 for i in range(shape[k])]; u = gen_unit(); da.append_range_dimension(t, unit=u)
                a["dims"].append({"kind":"range","ticks":t,"unit":u})
            else:
                lab = ["l%d"%i for i in range(shape[k])] if rng.random()<0.6 else None
                da.append_set_dimension(lab); a["dims"].append({"kind":"set","labels":lab})
        spec["arrays"].append(a); spec["entities"].append({"name":da.name,"type":"t","obj":da})
    for ti in range(rng.randint(0,3)):
        ref = rng.choice(spec["arrays"]); rank=len(ref["shape"])
        tg = b.create_tag("t%d"%ti,"t",[0.0]*rank)
        t = {"name":tg.name,"position":[0.0]*rank,"extent":None,"units":[],"refs":[ref["name"]],"obj":tg}
        if rng.random()<0.6: tg.extent=[1.0]*rank; t["extent"]=[1.0]*rank
        us=[]
        for d in ref["dims"]:
            if d["kind"]=="set" or not d["unit"]: us.append("")
            else:
                # same base with other prefix
                p,u_ = next(iter(ATOMIC[d["unit"]])); us.append(rng.choice(["","m","k","u"])+u_)
        if any(us): tg.units = us; t["units"]=us
        else:
            # units all empty: tag.units stays empty -> len mismatch unless rank 0 ; set explicit empties? library drops "not units"
            tg.units = us if any(us) else None
            t["units"] = []
        tg.references.append(ref["obj"])
        spec["tags"].append(t); spec["entities"].append({"name":tg.name,"type":"t","obj":tg})
    return spec
def inject(spec):
    kinds=[]
    for _ in range(rng.choice([0,1,1,2])):
        c = rng.choice(["ticks_count","unsorted","no_ticks","labels_count","neg_interval","no_interval","dim_unit","extra_dim","del_dims","tag_unit_bad","tag_unit_unconv","tag_pos_len","tag_ext_len","no_position","no_type"])
        a = rng.choice(spec["arrays"]); da=a["obj"]
        def dimof(k): 
            idx=[i for i,d in enumerate(a["dims"]) if d["kind"]==k]; 
            return (rng.choice(idx) if idx else None)
        if c=="ticks_count":
            i=dimof("range"); 
            if i is None: continue
            t=a["dims"][i]["ticks"]+[99.0]; da.dimensions[i].ticks=t; a["dims"][i]["ticks"]=t
        elif c=="unsorted":
            i=dimof("range")
            if i is None or len(a["dims"][i]["ticks"])<2: continue
            t=list(a["dims"][i]["ticks"]); t[-1]=t[-2]; da.dimensions[i].ticks=t; a["dims"][i]["ticks"]=t
        elif c=="no_ticks":
            i=dimof("range")
            if i is None: continue
            del da.dimensions[i]._h5group["ticks"]; a["dims"][i]["ticks"]=[]
        elif c=="labels_count":
            i=dimof("set")
            if i is None: continue
            l=["x"]*(a["shape"][i]+1); da.dimensions[i].labels=l; a["dims"][i]["labels"]=l
        elif c=="neg_interval":
            i=dimof("sample")
            if i is None: continue
            da.dimensions[i].sampling_interval=-1.0; a["dims"][i]["interval"]=-1.0
        elif c=="no_interval":
            i=dimof("sample")
            if i is None: continue
            da.dimensions[i].sampling_interval=None; a["dims"][i]["interval"]=None
        elif c=="dim_unit":
            i=dimof("sample") if rng.random()<0.5 else dimof("range")
            if i is None: continue
            u=rng.choice(["mV/s","foo","m s"]); da.dimensions[i].unit=u; a["dims"][i]["unit"]=u
        elif c=="extra_dim":
            da.append_set_dimension(); a["dims"].append({"kind":"set","labels":None})
        elif c=="del_dims":
            da.delete_dimensions(); a["dims"]=[]
        elif c in ("tag_unit_bad","tag_unit_unconv","tag_pos_len","tag_ext_len","no_position","no_type"):
            if not spec["tags"]: continue
            t=rng.choice(spec["tags"]); tg=t["obj"]
            if c=="tag_unit_bad":
                if not t["units"]: continue
                us=list(t["units"]); us[0]="foo"; tg.units=us; t["units"]=us
            elif c=="tag_unit_unconv":
                if not t["units"]: continue
                us=list(t["units"]); us[0]="mA"; tg.units=us; t["units"]=us
            elif c=="tag_pos_len":
                p=t["position"]+[1.0]; tg.position=p; t["position"]=p
            elif c=="tag_ext_len":
                e=(t["extent"] or [1.0]*len(t["position"]))+[1.0]; tg.extent=e; t["extent"]=e
            elif c=="no_position":
                tg.position=None; t["position"]=[]
            elif c=="no_type":
                tg._h5group.set_attr("type", None)
                for e_ in spec["entities"]:
                    if e_["name"]==t["name"]: e_["type"]=None
        kinds.append(c)
    return kinds
viol=[]; n=0; kcount={}
for case in range(int(os.environ.get("N","150"))):
    p="/tmp/scratch/x/c14_%d.nix"%os.getpid()
    f = nix.File.open(p, nix.FileMode.Overwrite)
    spec = build(f)
    inj = inject(spec)
    for k in inj: kcount[k]=kcount.get(k,0)+1
    try:
        res = f.validate()["errors"]
        got = {(o.name, kind(m)) for o,ms in res.items() for m in ms}
    except Exception as ex:
        got = {("EXC", type(ex).__name__)}
    exp = ref_validate(spec)
    n+=1
    if got != exp:
        viol.append((inj, "missing", sorted(exp-got), "surplus", sorted(got-exp), [(t["units"], [ (d.get("unit")) for d in next(a for a in spec["arrays"] if a["name"]==t["refs"][0])["dims"]]) for t in spec["tags"]]))
    f.close()
print("files", n, "injections", kcount)
print("violations", len(viol))
for v in viol[:12]: print("  ", v)
