# throw-away Layer-B feasibility probe: C07 + C09 oracles attached to real functions under the repo's own tests
import os, json, math
from fractions import Fraction as F
LOG = os.environ.get("LAYERB_LOG", "/tmp/scratch/plug/log.%d.jsonl" % os.getpid())
def emit(rec):
    with open(LOG, "a") as fh: fh.write(json.dumps(rec, default=str) + "\n")
PREF = {"":0,"Y":24,"Z":21,"E":18,"P":15,"T":12,"G":9,"M":6,"k":3,"h":2,"da":1,"d":-1,"c":-2,"m":-3,"u":-6,"n":-9,"p":-12,"f":-15,"a":-18,"z":-21,"y":-24}
def pytest_configure(config):
    import numpy as np
    import nixio
    from nixio import dimensions as D
    IM = D.IndexMode
    stats = {"sampled":0,"range":0,"set":0,"skipped":0}
    def expect(coords, n, p, mode):
        best=None
        rng_ = range(n) if n is not None else None
        if mode in (IM.LessOrEqual, IM.Less):
            if n is None: return "closed-form"
            for i in rng_:
                c=coords(i)
                if (c<=p if mode==IM.LessOrEqual else c<p): best=i
            return best
        for i in rng_ if n is not None else range(10**6):
            if coords(i)>=p: return i
        return None
    orig_s = D.SampledDimension.index_of
    def s_index_of(self, position, mode=IM.LessOrEqual):
        try: res=("ok", int(orig_s(self, position, mode)))
        except IndexError as ex: res=("IndexError", None); exc=ex
        try:
            iv=F(float(self.sampling_interval)); off=F(float(self.offset or 0)); p=F(float(position))
            k=(p-off)/iv
            fl=k.numerator//k.denominator; frac=k-fl
            tol = F(1,10**8) + F(1,10**5)*abs(k)
            if iv<=0 or (frac!=0 and (frac<=tol*2 or 1-frac<=tol*2)):
                stats["skipped"]+=1
            else:
                if mode==IM.LessOrEqual: e = fl if k>=0 else None
                elif mode==IM.Less: e = (fl-1 if frac==0 else fl); e = e if e>=0 else None
                else: e = max(0, fl if frac==0 else fl+1)
                stats["sampled"]+=1
                got = res[1]
                if got!=e: emit({"mon":"C07.sampled","pos":float(position),"iv":float(iv),"off":float(off),"mode":mode.name,"exp":e,"got":res})
        except Exception as ex:
            emit({"mon":"C07.sampled","error":repr(ex)})
        if res[0]=="ok": return orig_s(self, position, mode)
        raise exc
    D.SampledDimension.index_of = s_index_of
    orig_r = D.RangeDimension.index_of
    def r_index_of(self, position, mode=IM.LessOrEqual, ticks=None):
        try: res=("ok", int(orig_r(self, position, mode, ticks)))
        except IndexError as ex: res=("IndexError", None); exc=ex
        try:
            tk = list(ticks) if ticks is not None else list(self.ticks)
            if all(a<=b for a,b in zip(tk[:-1],tk[1:])):
                e=expect(lambda i: tk[i], len(tk), position, mode); stats["range"]+=1
                if res[1]!=e: emit({"mon":"C07.range","pos":float(position),"ticks":[float(x) for x in tk][:10],"mode":mode.name,"exp":e,"got":res})
            else: stats["skipped"]+=1
        except Exception as ex: emit({"mon":"C07.range","error":repr(ex)})
        if res[0]=="ok": return orig_r(self, position, mode, ticks)
        raise exc
    D.RangeDimension.index_of = r_index_of
    from nixio.util import units as U
    orig_scaling = U.scaling
    import re
    def scaling(origin, destination):
        out = orig_scaling(origin, destination)
        try:
            def parse(u):
                m=re.fullmatch(r"(.+?)(\^([+-]?[1-9]\d*))?", u); body=m.group(1); pw=int(m.group(3)) if m.group(3) else 1
                cands=[(p,body[len(p):]) for p in PREF if body.startswith(p) and body[len(p):] in ("m","g","s","A","K","mol","cd","Hz","N","Pa","J","W","C","V","F","S","Wb","T","H","lm","lx","Bq","Gy","Sv","kat","l","L","Ohm","%","dB","rad")]
                return cands, pw
            ca,pa=parse(origin); cb,pb=parse(destination)
            common=[(x,y) for x in ca for y in cb if x[1]==y[1]]
            if len(common)==1 and pa==pb:
                (p1,_),(p2,_)=common[0]; e=10.0**((PREF[p1]-PREF[p2])*pa)
                stats["scaling"]=stats.get("scaling",0)+1
                if not math.isclose(out,e,rel_tol=1e-12): emit({"mon":"C09.scaling","a":origin,"b":destination,"exp":e,"got":out})
        except Exception as ex: emit({"mon":"C09.scaling","error":repr(ex)})
        return out
    U.scaling = scaling
    config._layerb_stats = stats
def pytest_unconfigure(config):
    emit({"mon":"stats", **getattr(config, "_layerb_stats", {})})
