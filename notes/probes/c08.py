import sys, os, warnings, random, itertools, math
warnings.simplefilter("ignore")
sys.path.insert(0, os.environ.get("NIXREPO", "/repo"))
from fractions import Fraction as F
import numpy as np, nixio as nix
from nixio import SliceMode as SM
from nixio.exceptions import OutOfBounds, IncompatibleDimensions
rng = random.Random(int(os.environ.get("SEED","1")))
f = nix.File.open("/tmp/scratch/x/c08_%s.nix" % os.getpid(), nix.FileMode.Overwrite)
b = f.create_block("b","t")
PREF = {"":0,"m":-3,"u":-6,"k":3,"n":-9,"M":6,"c":-2,"da":1}
def ceil_frac(x): return -((-x.numerator)//x.denominator)
def floor_frac(x): return x.numerator//x.denominator
class Dim:
    pass
def mkdim(da, axis_len):
    kind = rng.choice(["sample","range","set","setnolabel"])
    d = Dim(); d.kind = kind; d.n = axis_len
    if kind == "sample":
        d.iv = F(rng.choice(["1","0.5","0.1","2","0.25"])); d.off = F(rng.choice(["0","0","1","-2","0.5"]))
        d.unit = rng.choice([None,"s","ms"]) 
        da.append_sampled_dimension(float(d.iv), unit=d.unit, offset=float(d.off) if d.off else None)
        d.coord = lambda i, d=d: d.off + i*d.iv
    elif kind == "range":
        t=[]; cur=F(rng.choice([-2,0,1]))
        for i in range(axis_len): t.append(cur); cur += F(rng.choice(["1","0.5","2","0.25"]))
        d.ticks=t; d.unit = rng.choice([None,"s","ms"])
        da.append_range_dimension([float(x) for x in t], unit=d.unit)
        d.coord = lambda i, d=d: d.ticks[i]
    else:
        d.unit=None
        da.append_set_dimension(["l%d"%i for i in range(axis_len)] if kind=="set" else None)
        d.coord = lambda i: F(i)
    return d
def index_set(d, a, bnd, inclusive):
    """indices of stored samples 0..n-1 whose coord in [a,b] / [a,b)"""
    return [i for i in range(d.n) if d.coord(i) >= a and (d.coord(i) <= bnd if inclusive else d.coord(i) < bnd)]
def beyond(d, a, bnd):
    # region runs past the coordinate range of stored data (right side) 
    last = d.coord(d.n-1) if d.n else None
    return d.n == 0 or bnd > last or a > last
viol = {}; stats = {"cases":0,"data":0,"invalid":0,"oob":0,"incompat":0}
def note(k, d): viol.setdefault(k, []).append(d)
for case in range(int(os.environ.get("N","400"))):
    rank = rng.choice([1,1,2,2,3])
    shape = tuple(rng.randint(1,6) for _ in range(rank))
    data = np.arange(float(np.prod(shape))).reshape(shape)
    da = b.create_data_array("d%d"%case,"t",data=data)
    dims = [mkdim(da, shape[k]) for k in range(rank)]
    for trial in range(6):
        plen = rng.choice([rank, rank, max(1,rank-1)])
        pos=[]; ext=[]; units=[]
        use_ext = rng.random() < 0.7
        use_units = rng.random() < 0.5
        for k in range(plen):
            d = dims[k]
            i = rng.randint(-1, d.n+1)
            base = d.coord(min(max(i,0), d.n-1)) if d.n else F(0)
            if i < 0: base = d.coord(0) - F(rng.choice(["0.5","3"])) * (d.iv if d.kind=="sample" else 1)
            if i >= d.n: base = d.coord(d.n-1) + F(rng.choice(["0.5","3"])) * (d.iv if d.kind=="sample" else 1)
            step = d.iv if d.kind=="sample" else F(1)
            p = base + F(rng.choice(["0","0","0.5"])) * step * (1 if i>=0 else 0)
            e = F(rng.choice(["0","1","1.5","2","10"])) * step
            # units
            u = None; sc = F(1)
            if use_units and d.kind in ("sample","range") and d.unit:
                pf = rng.choice(list(PREF)); u = pf + "s"
                dimpf = "m" if d.unit=="ms" else ""
                sc = F(10)**(PREF[pf]-PREF[dimpf])   # tagunit -> dimunit factor
            elif use_units:
                u = None
            pos.append((p/sc)); ext.append(e/sc); units.append(u if u else "")
        if use_units and not all(x=="" for x in units) and len(units)==plen:
            pass
        tg = b.create_tag("t%d_%d"%(case,trial),"t",[float(x) for x in pos])
        if use_ext: tg.extent = [float(x) for x in ext]
        if use_units and any(units): tg.units = units
        tg.references.append(da)
        for sm in (SM.Exclusive, SM.Inclusive):
            stats["cases"] += 1
            # oracle
            sets=[]; past=False; bad_units=False
            for k in range(rank):
                d = dims[k]
                if k < plen:
                    u = units[k] if (use_units and any(units)) else None
                    if u == "": u = None if not (use_units and any(units)) else ""
                    sc = F(1)
                    if use_units and any(units):
                        tu = units[k]
                        if d.kind in ("set","setnolabel"):
                            if tu not in ("", "none"): bad_units=True
                        else:
                            if tu == "":
                                # empty string unit: treated as? library: unit "" -> `unit is not None` -> scaling("", dimunit) -> InvalidUnit -> Incompatible if dimunit else Incompatible
                                bad_units = True
                            elif d.unit is None: bad_units=True
                            else:
                                pf = tu[:-1]; dimpf = "m" if d.unit=="ms" else ""
                                sc = F(10)**(PREF[pf]-PREF[dimpf])
                    a = pos[k]*sc
                    if use_ext:
                        bnd = a + ext[k]*sc
                        incl = (sm==SM.Inclusive) or ext[k]==0
                    else:
                        bnd = a; incl = True
                    sets.append(index_set(d, a, bnd, incl))
                    if beyond(d, a, bnd): past=True
                else:
                    sets.append(list(range(d.n)))
            try:
                v = tg.tagged_data(0, sm)
                valid = v.valid
                got = v[:] if valid else None
                outcome = "data" if valid else "invalid"
            except OutOfBounds as ex: outcome="oob"; got=None
            except IncompatibleDimensions as ex: outcome="incompat"; got=None
            except IndexError as ex: outcome="indexerror"; got=None
            stats[outcome] = stats.get(outcome,0)+1
            desc = dict(kinds=[d.kind for d in dims], shape=shape, pos=[str(x) for x in pos], ext=[str(x) for x in ext] if use_ext else None, units=units if (use_units and any(units)) else None, dimunits=[d.unit for d in dims], sm=sm.name, ivoff=[(str(d.iv),str(d.off)) if d.kind=="sample" else ([str(t) for t in d.ticks] if d.kind=="range" else None) for d in dims])
            if bad_units:
                if outcome != "incompat": note("units-not-refused", (outcome, desc))
                continue
            if outcome == "incompat": note("unexpected-incompat", desc); continue
            empty = any(len(s)==0 for s in sets)
            if outcome == "data":
                exp = data[np.ix_(*sets)] if not empty else None
                if empty: 
                    if got.size != 0: note("data-when-empty", (desc, got.tolist()))
                elif got.shape != exp.shape or not np.array_equal(got, exp):
                    note("wrong-data", (desc, "exp", exp.tolist(), "got", got.tolist()))
            else:
                if not empty and not past:
                    note("refused-inside-region", (outcome, desc, [s for s in sets]))
f.close()
print(stats)
for k,v in viol.items():
    print(k, len(v))
    for d in v[:4]: print("    ", d)
