import sys, os
exec(open("/tmp/scratch/x/hist.py").read().split("problems={}; nhist=")[0])
def content(root):
    """content tree of an entity with ids abstracted: internal refs -> path labels; external -> content by value"""
    paths={}
    def assign(obj, path):
        if obj.id in paths: return
        paths[obj.id]=path
        if isinstance(obj, nix.Block):
            for c in ("data_arrays","tags","multi_tags","groups"):
                for i,x in enumerate(getattr(obj,c)): assign(x,"%s/%s[%d]"%(path,c,i))
            def srcs(par,pp):
                for i,s in enumerate(par.sources): assign(s,"%s/sources[%d]"%(pp,i)); srcs(s,"%s/sources[%d]"%(pp,i))
            srcs(obj,path)
        if isinstance(obj,(nix.Tag,nix.MultiTag)):
            for i,ft in enumerate(obj.features): paths[ft.id]="%s/features[%d]"%(path,i)
        if isinstance(obj, nix.Section):
            for i,x in enumerate(obj.sections): assign(x,"%s/sections[%d]"%(path,i))
            for i,x in enumerate(obj.props): paths[x.id]="%s/props[%d]"%(path,i)
    assign(root,"ROOT")
    seen=set()
    def val(v, depth=0):
        if isinstance(v,(list,tuple)):
            if len(v)==3 and v[0]=="ref":
                if v[2] in paths: return ("iref", paths[v[2]])
                return ("xref", v[1], ext.get(v[2], "?"))
            return [val(e,depth) for e in v]
        return v
    ext={}
    def rec(obj, depth=0):
        r=record(obj); r.pop("id",None); 
        return r
    # gather entity objects
    out={}
    def walk(obj):
        if obj.id in seen: return
        seen.add(obj.id)
        r=record(obj); 
        if isinstance(obj, nix.DataArray):
            r["__data__"]=canon(obj[:]); r["__dims__"]=[]
            for d in obj.dimensions:
                dr=record(d)
                if d.has_link:
                    l=d.dimension_link; dr["__link__"]={"index":canon(l.index), "target":("ref","DataArray",l._linked_group().get_attr("entity_id")), "values":canon(l.values)}
                r["__dims__"].append(dr)
        out[obj.id]=r
        if isinstance(obj, nix.Block):
            for c in ("data_arrays","tags","multi_tags","groups"):
                for x in getattr(obj,c): walk(x)
            for s in obj.find_sources(): walk(s)
        if isinstance(obj,(nix.Tag,nix.MultiTag)):
            for ft in obj.features: out[ft.id]=record(ft)
        if isinstance(obj, nix.Section):
            for x in obj.sections: walk(x)
            for x in obj.props: out[x.id]=record(x)
    walk(root)
    # external refs by content: metadata sections etc.
    def extcontent(kind, id_):
        return "EXT"
    res={}
    for id_,r in out.items():
        rr={}
        for k,v in r.items():
            if k in ("id","created_at","updated_at"): continue
            rr[k]=val(v)
        res[paths.get(id_, "UNASSIGNED:"+id_)]=rr
    return res, set(out)
problems={}; ncopies=0
p2="/tmp/scratch/x/c20b_%d.nix"%os.getpid()
for h in range(int(os.environ.get("N","15"))):
    p="/tmp/scratch/x/c20_%d.nix"%os.getpid()
    f=nix.File.open(p, nix.FileMode.Overwrite); f2=nix.File.open(p2, nix.FileMode.Overwrite)
    for i in range(int(os.environ.get("L","80"))):
        try: step(f)
        except Exception as ex: pass
    for b in list(f.blocks)[:3]:
        for keep in (True, False):
            for dest,dn in ((f,"same"),(f2,"other")):
                name="cp_%s_%s_%s"%(b.name[:3],keep,dn)
                if name in [x.name for x in dest.blocks]: continue
                src_c, src_ids = content(b)
                pre_src = src_c
                try:
                    c = dest.create_block(name, copy_from=b, keep_copy_id=keep); ncopies+=1
                except Exception as ex:
                    problems.setdefault(("copy raised",type(ex).__name__,str(ex)[:80]),[]).append(h); continue
                cc = dest.blocks[name]
                if c.name!=name: problems.setdefault(("returned handle is not the copy", keep, dn),[]).append(h)
                cp_c, cp_ids = content(cc)
                # names differ at root
                a=dict(src_c); b_=dict(cp_c)
                a["ROOT"]={k:v for k,v in a["ROOT"].items() if k!="name"}; b_["ROOT"]={k:v for k,v in b_["ROOT"].items() if k!="name"}
                if a!=b_:
                    d=[(k,kk,str(a[k].get(kk))[:70],str(b_.get(k,{}).get(kk))[:70]) for k in a for kk in a[k] if a[k].get(kk)!=b_.get(k,{}).get(kk)]
                    problems.setdefault(("content differs",keep,dn,str(d[:2])[:300]),[]).append(h)
                if keep:
                    if src_ids!=cp_ids: problems.setdefault(("ids not kept",dn),[]).append(h)
                else:
                    if src_ids & cp_ids: problems.setdefault(("ids not fresh",dn,len(src_ids&cp_ids)),[]).append(h)
                # independence: mutate copy
                if len(cc.data_arrays):
                    da=cc.data_arrays[0]; da.label="MUTATED"; 
                    if da.size and da.dtype!=np.bool_: da[...]=np.full(da.shape,77).astype(da.dtype)
                    cc.create_data_array("extra_in_copy","t",data=[1.])
                    if content(b)[0]!=pre_src: problems.setdefault(("mutating copy changed source",keep,dn),[]).append(h)
    f.close(); f2.close()
print("copies",ncopies)
for k,v in sorted(problems.items(), key=lambda kv:-len(kv[1])): print(len(v),k)
