import sys, os, warnings, random, inspect, hashlib, json, traceback
warnings.simplefilter("ignore")
sys.path.insert(0, os.environ.get("NIXREPO", "/repo"))
import numpy as np, nixio as nix, enum
import nixio.util, nixio.util.util
from nixio.entity import Entity
from nixio.container import Container
from nixio.dimensions import Dimension, DimensionLink
from nixio.feature import Feature
clock={"t":1_000_000}
def now(): clock["t"]+=7; return clock["t"]
nixio.util.now_int = now; nixio.util.util.now_int = now
rng = random.Random(int(os.environ.get("SEED","1")))
DERIVED={"parent","parent_source","parent_block","file","data"}
def canon(v):
    if isinstance(v, (Entity, Feature)): return ("ref", type(v).__name__, v.id)
    if isinstance(v, DimensionLink): return ("dimlink", v.id)
    if isinstance(v, Dimension): return ("dim", type(v).__name__, v.index)
    if isinstance(v, Container): return ("container", [canon(x) for x in v])
    if isinstance(v, np.ndarray): return ("nd", str(v.dtype), list(v.shape), repr(v.tolist())[:2000])
    if isinstance(v, np.generic): return (type(v).__name__, repr(v.item()))
    if isinstance(v, (tuple, list)): return [canon(x) for x in v]
    if isinstance(v, float): return ("float", repr(v))
    if isinstance(v, (str,int,bool,type(None))): return v
    if isinstance(v, np.dtype): return ("dtype", str(v))
    if isinstance(v, type): return ("type", v.__name__)
    if isinstance(v, enum.Enum): return ("enum", str(v))
    return ("other", type(v).__name__, repr(v)[:60])
def record(obj):
    rec={}
    for name,m in inspect.getmembers(type(obj)):
        if isinstance(m, property) and not name.startswith("_") and name not in DERIVED and not name.startswith("referring_"):
            try: rec[name]=canon(getattr(obj,name))
            except Exception as e: rec[name]=("raises", type(e).__name__)
    return rec
def snapshot(f):
    table={}
    def visit(obj, kind):
        key=(kind,obj.id); r=record(obj)
        if key in table:
            base={k:v for k,v in table[key].items() if not k.startswith("__")}
            if base!=r: raise AssertionError(("path disagreement", key, [(k,base.get(k),r.get(k)) for k in r if base.get(k)!=r.get(k)]))
            return
        table[key]=r
        if isinstance(obj, nix.DataArray):
            try: r["__data__"]=canon(obj[:])
            except Exception as e: r["__data__"]=("raises", type(e).__name__)
            r["__dims__"]=[]
            for d in obj.dimensions:
                dr=record(d)
                if d.has_link:
                    try: dr["__link__"]=record(d.dimension_link)
                    except Exception as e: dr["__link__"]=("raises",type(e).__name__)
                r["__dims__"].append(dr)
            for s in obj.sources: visit(s,"Source")
        if isinstance(obj, nix.Block):
            for c in ("data_arrays","tags","multi_tags","groups"):
                for x in getattr(obj,c): visit(x,type(x).__name__)
            for s in obj.find_sources(): visit(s,"Source")
        if isinstance(obj,(nix.Tag,nix.MultiTag)):
            for ft in obj.features: table[("Feature",ft.id)]=record(ft)
            for x in obj.references: visit(x,"DataArray")
            for s in obj.sources: visit(s,"Source")
        if isinstance(obj, nix.Group):
            for c in ("data_arrays","tags","multi_tags"):
                for x in getattr(obj,c): visit(x,type(x).__name__)
        if isinstance(obj, nix.Section):
            for p in obj.props: table[("Property",p.id)]=record(p)
            for x in obj.sections: visit(x,"Section")
    for b in f.blocks: visit(b,"Block")
    for s in f.sections: visit(s,"Section")
    table[("File",f.id)]=record(f)
    return table
NAMES=["a","b","zz","aa","mm","ü∂","x y","d1","d2","same"]
STR=[None,"","txt","ünï","x"*50]
def uniq(cont, base):
    n=base; i=0
    names={x.name for x in cont}
    while n in names: i+=1; n="%s%d"%(base,i)
    return n
def pick(seq):
    seq=list(seq); return rng.choice(seq) if seq else None
def all_sections(f): return f.find_sections()
def step(f):
    ops=[]
    blocks=list(f.blocks)
    def op_create_block(): f.create_block(uniq(f.blocks, rng.choice(NAMES)),"t", compression=rng.choice(list(nix.Compression)))
    def op_create_section():
        par=pick([f]+all_sections(f)); par.create_section(uniq(par.sections, rng.choice(NAMES)),"t")
    ops += [op_create_block, op_create_section]
    b=pick(blocks)
    if b is not None:
        def op_da():
            shape=tuple(rng.randint(0,3) for _ in range(rng.randint(1,3)))
            dt=rng.choice([np.float64,np.int16,np.uint8,np.bool_])
            b.create_data_array(uniq(b.data_arrays, rng.choice(NAMES)),"t",data=(np.arange(int(np.prod(shape))).reshape(shape)%2).astype(dt))
        def op_tag(): b.create_tag(uniq(b.tags, rng.choice(NAMES)),"t",[float(rng.randint(0,3)) for _ in range(rng.randint(1,2))])
        def op_mtag():
            da=pick(b.data_arrays)
            if da is not None: b.create_multi_tag(uniq(b.multi_tags, rng.choice(NAMES)),"t",da)
        def op_group(): b.create_group(uniq(b.groups, rng.choice(NAMES)),"t")
        def op_source():
            par=pick([b]+b.find_sources()); par.create_source(uniq(par.sources, rng.choice(NAMES)),"t")
        def op_battr(): setattr(b, rng.choice(["definition"]), rng.choice(STR))
        ops += [op_da,op_da,op_tag,op_mtag,op_group,op_source,op_battr]
        da=pick(b.data_arrays)
        if da is not None:
            def op_da_attr():
                a=rng.choice(["label","unit","definition","expansion_origin","polynom_coefficients","type"])
                v={"label":rng.choice(STR),"unit":rng.choice([None,"mV"," m s","µV"]),"definition":rng.choice(STR),"expansion_origin":rng.choice([None,0,1.5]),"polynom_coefficients":rng.choice([None,[1.0,2.0],[0.0]]),"type":rng.choice(["t","ü"])}[a]
                if da.dtype==np.bool_ and a in ("expansion_origin","polynom_coefficients"): return
                setattr(da,a,v)
            def op_da_dim():
                k=rng.choice(["set","sample","range","self"])
                if k=="set": da.append_set_dimension(rng.choice([None,["l1","l2"]]))
                elif k=="sample": da.append_sampled_dimension(rng.choice([1.0,0.5]), label=rng.choice(STR[2:]+[None]), unit=rng.choice([None,"s"]), offset=rng.choice([None,1.0]))
                elif k=="range": da.append_range_dimension(rng.choice([None,[1.0,2.0,3.0]]), label=rng.choice(STR), unit=rng.choice([None,"ms"]))
                else:
                    if len(da.shape)==1: da.append_range_dimension_using_self()
            def op_da_write():
                if da.size and da.dtype!=np.bool_: da[...] = (np.ones(da.shape)*rng.randint(0,9)).astype(da.dtype)
            def op_da_append():
                ax=rng.randrange(len(da.shape)); sh=list(da.shape); sh[ax]=rng.randint(0,2); da.append(np.ones(sh,dtype=da.dtype),axis=ax)
            def op_da_meta():
                s=pick(all_sections(f))
                if s is not None: da.metadata=s
            def op_da_delmeta(): del da.metadata
            def op_da_src():
                s=pick(b.find_sources())
                if s is not None: da.sources.append(s)
            def op_da_deldims(): da.delete_dimensions()
            def op_dimlink():
                tgt=pick([x for x in b.data_arrays if len(x.shape)>=1])
                rds=[d for d in da.dimensions if isinstance(d, nix.RangeDimension)]
                if tgt is not None and rds:
                    idx=[0]*len(tgt.shape); idx[rng.randrange(len(idx))]=-1
                    pick(rds).link_data_array(tgt, idx)
            ops += [op_da_attr,op_da_attr,op_da_dim,op_da_write,op_da_append,op_da_meta,op_da_delmeta,op_da_src,op_da_deldims,op_dimlink]
        g=pick(b.groups)
        if g is not None:
            def op_g_add():
                c=rng.choice(["data_arrays","tags","multi_tags"]); x=pick(getattr(b,c))
                if x is not None: getattr(g,c).append(x)
            def op_g_del():
                c=rng.choice(["data_arrays","tags","multi_tags"]); x=pick(getattr(g,c))
                if x is not None: del getattr(g,c)[rng.choice([x.id, x, 0])]
            ops += [op_g_add,op_g_add,op_g_del]
        tg=pick(list(b.tags)+list(b.multi_tags))
        if tg is not None:
            def op_t_ref():
                x=pick(b.data_arrays)
                if x is not None: tg.references.append(x)
            def op_t_feat():
                x=pick(b.data_arrays)
                if x is not None: tg.create_feature(x, rng.choice(list(nix.LinkType)))
            def op_t_units(): tg.units = rng.choice([None,["mV"],["s","ms"]])
            def op_t_pos():
                if isinstance(tg,nix.Tag): tg.position=[1.0,2.0][:rng.randint(1,2)]; tg.extent=rng.choice([None,[1.0]])
                else:
                    x=pick(b.data_arrays)
                    if x is not None: tg.extents=x
            def op_t_delfeat():
                ft=pick(tg.features)
                if ft is not None: del tg.features[ft.id]
            ops += [op_t_ref,op_t_feat,op_t_units,op_t_pos,op_t_delfeat]
        def op_del():
            c=rng.choice(["data_arrays","tags","multi_tags","groups","sources"]); x=pick(getattr(b,c))
            if x is not None: del getattr(b,c)[rng.choice([x.name, x.id, x])]
        ops += [op_del]
    s=pick(all_sections(f))
    if s is not None:
        def op_prop(): s.create_property(uniq(s.props, rng.choice(NAMES)), rng.choice([[1,2],[1.5],["a","ü"],[True],nix.DataType.Int64]))
        def op_pval():
            p=pick(s.props)
            if p is not None:
                dt=p.data_type
                v={np.dtype("int64"):[3,4,5],np.dtype("float64"):[2.5],np.dtype("bool"):[False,True]}.get(dt if not isinstance(dt,type) else None, ["s","t"])
                rng.choice([lambda: setattr(p,"values",v), lambda: p.extend_values(v), lambda: setattr(p,"values",None), lambda: setattr(p,"unit",rng.choice([None,"mV"])), lambda: setattr(p,"definition",rng.choice(STR)), lambda:setattr(p,"uncertainty",rng.choice([None,0.5]))])()
        def op_sattr(): setattr(s, rng.choice(["reference","repository","definition"]), rng.choice(STR))
        def op_sdel():
            par=s.parent if s.parent is not None else f
        def op_delsec():
            x=pick(f.sections)
            if x is not None and rng.random()<0.3: del f.sections[x.name]
        ops += [op_prop,op_pval,op_pval,op_sattr,op_delsec]
    def op_delblock():
        x=pick(f.blocks)
        if x is not None and rng.random()<0.2: del f.blocks[x.name]
    ops.append(op_delblock)
    op=rng.choice(ops)
    op()
    return op.__name__
problems={}; nhist=int(os.environ.get("N","20")); nops=0; nreopen=0; opcount={}
for h in range(nhist):
    p="/tmp/scratch/x/hist_%d.nix"%os.getpid()
    f=nix.File.open(p, nix.FileMode.Overwrite)
    log=[]
    for i in range(int(os.environ.get("L","80"))):
        try:
            name=step(f); log.append(name); nops+=1; opcount[name]=opcount.get(name,0)+1
        except Exception as ex:
            key=("op-raised", type(ex).__name__, str(ex)[:70]); problems.setdefault(key,[]).append((h,i)); 
        if rng.random()<0.06 or i==int(os.environ.get("L","80"))-1:
            try:
                S1=snapshot(f)
            except AssertionError as ex:
                problems.setdefault(("path-disagreement", str(ex)[:150]),[]).append((h,i)); S1=None
            f.close(); mode=rng.choice([nix.FileMode.ReadOnly, nix.FileMode.ReadWrite])
            f=nix.File.open(p, mode); 
            try: S2=snapshot(f)
            except AssertionError as ex: S2=None
            nreopen+=1
            if S1 is not None and S2 is not None and S1!=S2:
                d=[(k,a,S1[k].get(a),S2.get(k,{}).get(a)) for k in S1 for a in S1[k] if S1[k].get(a)!=S2.get(k,{}).get(a)]
                problems.setdefault(("reopen-diff", str(d[:2])[:300]),[]).append((h,i))
            if mode==nix.FileMode.ReadOnly:
                f.close(); f=nix.File.open(p, nix.FileMode.ReadWrite)
    f2=nix.File.open(p, nix.FileMode.ReadOnly); S=snapshot(f2); f2.close(); sizes=globals().setdefault("sizes",[]); sizes.append(len(S)); kinds=globals().setdefault("kinds",{}); [kinds.__setitem__(k[0], kinds.get(k[0],0)+1) for k in S]
    f.close()
print("histories",nhist,"ops",nops,"reopens",nreopen, "distinct ops", len(opcount))
print("entities per final file", sizes[:10], kinds)
print(sorted(opcount.items(), key=lambda kv:-kv[1])[:40])
for k,v in sorted(problems.items(), key=lambda kv:-len(kv[1])): print(len(v), k)
