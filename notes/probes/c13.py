import sys, os, warnings, random
warnings.simplefilter("ignore")
sys.path.insert(0, os.environ.get("NIXREPO", "/repo"))
import numpy as np, nixio as nix
rng = random.Random(int(os.environ.get("SEED","1")))
problems={}; ntrees=0; nq=0
def note(k,d): problems.setdefault(k,[]).append(d)
class N:
    def __init__(s,name,parent): s.name=name; s.parent=parent; s.children=[]; s.id=None
def grow(make_child, root_nodes, depth, create):
    pass
def bfs(roots, limit, filt, rootlevel):
    out=[]; q=[(r,rootlevel) for r in roots]
    while q:
        n,l=q.pop(0)
        if filt(n): out.append(n.id)
        if l+1<=limit:
            q+= [(c,l+1) for c in n.children]
    return out
for case in range(int(os.environ.get("N","40"))):
    p="/tmp/scratch/x/c13_%d.nix"%os.getpid()
    f=nix.File.open(p, nix.FileMode.Overwrite); ntrees+=1
    names=["x","y","z"]
    # sections tree
    sroots=[]; allsec=[]
    def gen(parent_model, parent_real, depth, kind):
        k=rng.randint(0,3) if depth<4 else 0
        used=set()
        for i in range(k):
            nm=rng.choice(names)
            if nm in used: continue
            used.add(nm)
            n=N(nm,parent_model)
            real = parent_real.create_section(nm,"t"+nm) if kind=="sec" else parent_real.create_source(nm,"t"+nm)
            n.id=real.id; n.type="t"+nm
            (parent_model.children if parent_model else (sroots if kind=="sec" else broots)).append(n)
            (allsec if kind=="sec" else allsrc).append(n)
            gen(n, real, depth+1, kind)
    gen(None, f, 1, "sec")
    b=f.create_block("b","t"); b2=f.create_block("b2","t")
    broots=[]; allsrc=[]
    gen(None, b, 1, "src")
    # metadata / source links
    ents={"Block":[b,b2]}
    das=[b.create_data_array("d%d"%i,"t",data=[1.]) for i in range(3)]; tgs=[b.create_tag("t%d"%i,"t",[0.]) for i in range(2)]; mts=[b.create_multi_tag("m%d"%i,"t",das[0]) for i in range(2)]; grps=[b.create_group("g%d"%i,"t") for i in range(2)]
    def real_sec(n): return f.find_sections(filtr=lambda s: s.id==n.id)[0]
    def real_src(n): return b.find_sources(filtr=lambda s: s.id==n.id)[0]
    md={}   # holder key -> section id
    holders=[("Block",x) for x in (b,b2)]+[("Group",x) for x in grps]+[("DataArray",x) for x in das]+[("Tag",x) for x in tgs]+[("MultiTag",x) for x in mts]+[("Source",real_src(n)) for n in allsrc]
    for kind,hd in holders:
        if allsec and rng.random()<0.5:
            n=rng.choice(allsec); hd.metadata=real_sec(n); md[(kind,hd.id)]=n.id
    srclinks={}
    for kind,hd in [("DataArray",x) for x in das]+[("Tag",x) for x in tgs]+[("MultiTag",x) for x in mts]:
        for _ in range(rng.randint(0,2)):
            if allsrc:
                n=rng.choice(allsrc); hd.sources.append(real_src(n)); srclinks.setdefault(n.id,set()).add((kind,hd.id))
    f.close(); f=nix.File.open(p, nix.FileMode.ReadOnly); b=f.blocks["b"]
    # queries
    maxd=5
    for limit in [None,0,1,2,3,4,5,6]:
        lim = 10**9 if limit is None else limit
        for filt_name,filt_m,filt_r in [("all",lambda n:True,lambda s:True),("name=x",lambda n:n.name=="x",lambda s:s.name=="x"),("type",lambda n:n.type=="ty",lambda s:s.type=="ty")]:
            nq+=1
            if limit!=0:
                exp=bfs(sroots, lim, filt_m, 1); got=[s.id for s in f.find_sections(filtr=filt_r, limit=limit)]
                if got!=exp: note("file.find_sections",(limit,filt_name,len(exp),len(got)))
                exp=bfs(broots, lim, filt_m, 1); got=[s.id for s in b.find_sources(filtr=filt_r, limit=limit)]
                if got!=exp: note("block.find_sources",(limit,filt_name,len(exp),len(got)))
            for n in rng.sample(allsec,min(3,len(allsec))):
                exp=bfs([n], lim, filt_m, 0); got=[s.id for s in real_sec(n).find_sections(filtr=filt_r, limit=limit)]
                if got!=exp: note("section.find_sections",(limit,filt_name))
            for n in rng.sample(allsrc,min(3,len(allsrc))):
                exp=bfs([n], lim, filt_m, 0); got=[s.id for s in real_src(n).find_sources(filtr=filt_r, limit=limit)]
                if got!=exp: note("source.find_sources",(limit,filt_name))
    # parents through fresh handles of different kinds
    def handles_sec(n):
        hs=[real_sec(n)]
        # via container path
        path=[]; m=n
        while m: path.append(m); m=m.parent
        cur=f.sections[ [x.id for x in f.sections].index(path[-1].id) ]
        for m in reversed(path[:-1]): cur=cur.sections[m.name]
        hs.append(cur)
        return hs
    for n in allsec:
        for hd in handles_sec(n):
            nq+=1
            par=hd.parent; exp=n.parent.id if n.parent else None
            if (par.id if par is not None else None)!=exp: note("section.parent",(n.name, "exp", n.parent.name if n.parent else None, "got", par.name if par is not None else None))
    for n in allsrc:
        hd=real_src(n); nq+=1
        par=hd.parent_source; exp=n.parent.id if n.parent else None
        if (par.id if par is not None else None)!=exp: note("source.parent_source",(n.name,))
        if hd.parent_block.id!=b.id: note("parent_block",(n.name,))
    # via link list handle
    for x in list(b.data_arrays)+list(b.tags)+list(b.multi_tags):
        for sh in x.sources:
            nq+=1
            n=[m for m in allsrc if m.id==sh.id][0]
            par=sh.parent_source; exp=n.parent.id if n.parent else None
            if (par.id if par is not None else None)!=exp: note("source.parent_source via link",(n.name,))
            if sh.parent_block.id!=b.id: note("parent_block via link",(n.name,))
    # referring
    for n in allsec:
        s=real_sec(n); nq+=1
        for kind,attr in [("Block","referring_blocks"),("Group","referring_groups"),("DataArray","referring_data_arrays"),("Tag","referring_tags"),("MultiTag","referring_multi_tags"),("Source","referring_sources")]:
            exp=sorted(i for (k,i),sid in md.items() if k==kind and sid==n.id); got=sorted(x.id for x in getattr(s,attr))
            if exp!=got: note("section."+attr,(len(exp),len(got)))
    for n in allsrc:
        s=real_src(n); nq+=1
        for kind,attr in [("DataArray","referring_data_arrays"),("Tag","referring_tags"),("MultiTag","referring_multi_tags")]:
            exp=sorted(i for (k,i) in srclinks.get(n.id,()) if k==kind); got=sorted(x.id for x in getattr(s,attr))
            if exp!=got: note("source."+attr,(exp,got))
    f.close()
print("trees",ntrees,"queries",nq)
for k,v in sorted(problems.items(), key=lambda kv:-len(kv[1])): print(len(v),k,v[:3])
