import sys, os
exec(open("/tmp/scratch/x/hist.py").read().split("problems={}; nhist=")[0])
def tstable(f):
    t={}
    def add(o,k): 
        try: t[(k,o.id)]=(o.created_at,o.updated_at)
        except Exception as ex: t[(k,o.id)]=("raises",type(ex).__name__)
    add(f,"File")
    for b in f.blocks:
        add(b,"Block")
        for c in ("data_arrays","tags","multi_tags","groups"):
            for x in getattr(b,c):
                add(x,c)
                if c in ("tags","multi_tags"):
                    for ft in x.features: add(ft,"Feature")
        for s in b.find_sources(): add(s,"Source")
    for s in f.find_sections():
        add(s,"Section")
        for p in s.props: add(p,"Property")
    return t
problems={}; nops=0; changed_hist={}
for h in range(int(os.environ.get("N","20"))):
    p="/tmp/scratch/x/c19_%d.nix"%os.getpid()
    auto = (h%2==0)
    f=nix.File.open(p, nix.FileMode.Overwrite, auto_update_timestamps=auto)
    for i in range(int(os.environ.get("L","100"))):
        before=tstable(f); c0=clock["t"]
        try: name=step(f); nops+=1
        except Exception as ex: name="EXC"
        after=tstable(f)
        for k in before:
            if k not in after: continue
            (c1,u1),(c2,u2)=before[k],after[k]
            if c1!=c2: problems.setdefault(("created_at changed",name,k[0]),[]).append((h,i))
            if isinstance(u1,int) and isinstance(u2,int):
                if u2<u1: problems.setdefault(("updated_at decreased",name,k[0]),[]).append((h,i))
                if u2!=u1:
                    if not auto: problems.setdefault(("auto off but updated",name,k[0]),[]).append((h,i))
                    changed_hist[(name,k[0])]=changed_hist.get((name,k[0]),0)+1
                    if not (c0 < u2 <= clock["t"]): problems.setdefault(("updated_at not clock value",name,k[0],u2,c0,clock["t"]),[]).append((h,i))
        if rng.random()<0.05:
            auto = not auto; f.auto_update_timestamps = auto
    f.close()
print("ops",nops)
print("who gets updated:", sorted(changed_hist.items(), key=lambda kv:-kv[1]))
for k,v in sorted(problems.items(), key=lambda kv:-len(kv[1])): print(len(v),k)
