import sys, os, subprocess, pickle
exec(open("/tmp/scratch/x/hist.py").read().split("problems={}; nhist=")[0])
res={}
for i in range(int(os.environ.get("N","12"))):
    for mode in ["flush","close","with"]+(["none"] if i<3 else []):
        p="/tmp/scratch/x/c17_%d.nix"%i
        for q in (p,p+".snap"):
            if os.path.exists(q): os.remove(q)
        env=dict(os.environ, SEED=str(100+i))
        r=subprocess.run([sys.executable,"/tmp/scratch/x/c17child.py",p,str(40+10*i),mode],env=env,capture_output=True,timeout=120)
        S=pickle.load(open(p+".snap","rb"))
        out=[]
        for m in (nix.FileMode.ReadOnly, nix.FileMode.ReadWrite):
            try:
                f=nix.File.open(p,m); S2=snapshot(f); f.close()
                out.append("equal" if S2==S else "DIFF")
            except Exception as ex: out.append("EXC:"+type(ex).__name__)
        res.setdefault((mode,tuple(out)),0); res[(mode,tuple(out))]+=1
print(res, "size", os.path.getsize(p))
