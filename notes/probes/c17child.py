import sys, os, signal, pickle
exec(open("/tmp/scratch/x/hist.py").read().split("problems={}; nhist=")[0])
p=sys.argv[1]; nops=int(sys.argv[2]); mode=sys.argv[3]
f=nix.File.open(p, nix.FileMode.Overwrite, compression=rng.choice(list(nix.Compression)))
for i in range(nops):
    try: step(f)
    except Exception: pass
    if i%10==0:
        # grow some array
        for b in f.blocks:
            for da in b.data_arrays:
                if len(da.shape)==1 and da.dtype==np.float64: da.append(np.arange(2000.))
S=snapshot(f)
pickle.dump(S, open(p+".snap","wb"))
if mode=="flush": f.flush()
elif mode=="close": f.close()
elif mode=="with":
    f.__exit__(None,None,None)
elif mode=="none": pass
os.kill(os.getpid(), signal.SIGKILL)
