import sys, os, warnings, random, itertools
warnings.simplefilter("ignore")
sys.path.insert(0, os.environ.get("NIXREPO", "/repo"))
import numpy as np, nixio as nix
from nixio.exceptions import OutOfBounds
rng = random.Random(int(os.environ.get("SEED","1")))
f = nix.File.open("/tmp/scratch/x/c06_%d.nix"%os.getpid(), nix.FileMode.Overwrite)
b = f.create_block("b","t")
viol={}; stats={"read":0,"write":0,"refused_ok":0,"views":0,"invalid_views":0}
def note(k,d): viol.setdefault(k,[]).append(d)
def comps(n):
    ints=list(range(-n-2,n+2))
    bounds=[None]+list(range(-n-3,n+4))
    steps=[None,1,2,3,n+1]
    sl=[slice(a,bb,c) for a in bounds for bb in bounds for c in steps]
    return ints, sl
def check_read(obj, a, expr, label):
    stats["read"]+=1
    try: exp=a[expr]; exp_err=None
    except IndexError as ex: exp=None; exp_err=ex
    try: got=obj[expr]; got_err=None
    except (IndexError,) as ex: got=None; got_err=ex
    except Exception as ex: got=None; got_err=ex
    if exp_err is not None:
        if got_err is None: note("oob-yields-data", (label, repr(expr), got.tolist()))
        elif not isinstance(got_err, IndexError): note("oob-wrong-exc", (label, repr(expr), type(got_err).__name__))
        else: stats["refused_ok"]+=1
        return
    if got_err is not None: note("legal-refused", (label, repr(expr), type(got_err).__name__, str(got_err)[:50])); return
    exp=np.asarray(exp)
    if exp.ndim==0: exp=exp.reshape((1,))
    if got.shape!=exp.shape or not np.array_equal(got,exp): note("wrong-read", (label, repr(expr), exp.tolist(), got.tolist()))
def check_write(da, obj, a_full, window, expr, label):
    stats["write"]+=1
    model=a_full.copy(); wview = model[window] if window is not None else model
    try:
        target_shape = wview[expr].shape
        val = np.asarray(rng.randint(100,999), dtype=a_full.dtype) if rng.random()<0.3 else (np.arange(int(np.prod(target_shape))).reshape(target_shape)+100).astype(a_full.dtype)
        wview[expr]=val; exp_err=None
    except IndexError as ex: exp_err=ex; val=np.asarray(5.0)
    try: obj[expr]=val; got_err=None
    except Exception as ex: got_err=ex
    now=da[:]
    if exp_err is not None:
        if got_err is None: note("oob-write-accepted", (label, repr(expr)))
        if not np.array_equal(now, a_full): note("refused-write-changed-data",(label,repr(expr)))
    else:
        if got_err is not None:
            note("legal-write-refused",(label,repr(expr),type(got_err).__name__,str(got_err)[:60]))
            if not np.array_equal(now, a_full): note("refused-write-changed-data",(label,repr(expr)))
        elif not np.array_equal(now, model): note("wrong-write",(label,repr(expr),model.tolist(),now.tolist()))
    da[...] = a_full  # restore
cnt=0
# rank 1 exhaustive-ish
for n in [0,1,2,4]:
    a=np.arange(float(n))+10; da=b.create_data_array("r1_%d"%n,"t",data=a)
    ints,sl=comps(n)
    exprs=ints+sl+[Ellipsis]+[(Ellipsis,i) for i in ints[:3]]
    for e in exprs: check_read(da,a,e,("da",n))
    for e in rng.sample(exprs, min(60,len(exprs))): check_write(da,da,a,None,e,("da",n))
    for start in range(0,n+2):
        for ext in range(0,n+3):
            v=da.get_slice([start],[ext]); stats["views"]+=1
            if start+ext>n:
                if v.valid or v[:].size: note("oob-window-valid",(n,start,ext))
                stats["invalid_views"]+=1; continue
            if not v.valid: note("legal-window-invalid",(n,start,ext)); continue
            w=a[start:start+ext]; ints2,sl2=comps(ext)
            ex2=ints2+rng.sample(sl2,min(150,len(sl2)))+[Ellipsis]
            for e in ex2: check_read(v,w,e,("view",n,start,ext))
            for e in rng.sample(ex2,min(25,len(ex2))): check_write(da,v,a,(slice(start,start+ext),),e,("view",n,start,ext))
# rank 2/3 sampled
for shape in [(2,3),(3,1),(0,2),(2,2,2),(1,3,2)]:
    a=np.arange(float(np.prod(shape))).reshape(shape)+10; da=b.create_data_array("r%s"%"_".join(map(str,shape)),"t",data=a)
    for _ in range(600):
        k=rng.randint(1,len(shape)); tup=[]
        for d in range(k):
            n=shape[d]; ints,sl=comps(n); tup.append(rng.choice(ints) if rng.random()<0.4 else rng.choice(sl))
        if rng.random()<0.3 and k<=len(shape): tup.insert(rng.randint(0,len(tup)), Ellipsis); 
        if len([t for t in tup if t is not Ellipsis])>len(shape): continue
        e=tuple(tup)
        check_read(da,a,e,("da",shape))
        if rng.random()<0.2: check_write(da,da,a,None,e,("da",shape))
    for _ in range(60):
        st=[rng.randint(0,s) for s in shape]; ex=[rng.randint(0,s-o+1) for s,o in zip(shape,st)]
        v=da.get_slice(st,ex); stats["views"]+=1
        if any(o+e_>s for o,e_,s in zip(st,ex,shape)):
            if v.valid or v[:].size: note("oob-window-valid",(shape,st,ex))
            stats["invalid_views"]+=1; continue
        if not v.valid: note("legal-window-invalid",(shape,st,ex)); continue
        win=tuple(slice(o,o+e_) for o,e_ in zip(st,ex)); w=a[win]
        for _2 in range(40):
            k=rng.randint(1,len(shape)); tup=[]
            for d in range(k):
                n=ex[d]; ints,sl=comps(n); tup.append(rng.choice(ints) if rng.random()<0.4 else rng.choice(sl))
            if rng.random()<0.3: tup.insert(rng.randint(0,len(tup)), Ellipsis)
            e=tuple(tup)
            check_read(v,w,e,("view",shape,st,ex))
            if rng.random()<0.25: check_write(da,v,a,win,e,("view",shape,st,ex))
f.close()
print(stats)
for k,v in viol.items():
    print(k,len(v))
    for d in v[:5]: print("    ",str(d)[:300])
