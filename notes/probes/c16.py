import sys, os, warnings, random
warnings.simplefilter("ignore")
sys.path.insert(0, os.environ.get("NIXREPO", "/repo"))
import numpy as np, nixio as nix
from collections import OrderedDict
rng = random.Random(int(os.environ.get("SEED","1")))
TYPES = {"text": (str, lambda: rng.choice(["a","üñ","","x y","long"*20])), "int": (nix.DataType.Int64, lambda: rng.randint(-2**40, 2**40)),
         "float": (nix.DataType.Double, lambda: rng.choice([0.5,-1.25,1e300,float("inf"),2.0])), "bool": (nix.DataType.Bool, lambda: rng.random()<0.5),
         "small": (np.int8, lambda: rng.randint(-128,127))}
def same(a,b):
    if isinstance(a,float) and isinstance(b,float) and a!=a and b!=b: return True
    return a==b
problems={}; nops=0; opc={}
def note(k,d): problems.setdefault(k,[]).append(d)
def norm(v):
    if isinstance(v, np.generic): v=v.item()
    if isinstance(v, bytes): v=v.decode()
    return v
def check(df, cols, rows, units, tag):
    try:
        if tuple(df.column_names)!=tuple(c[0] for c in cols): note("column_names", (tag, df.column_names, [c[0] for c in cols]))
        if df.df_shape!=(len(rows),len(cols)): note("df_shape",(tag, df.df_shape,(len(rows),len(cols))))
        if df.shape!=(len(rows),) or df.row_count()!=len(rows) or len(df)!=len(rows): note("shape",(tag,df.shape,len(rows)))
        allr=df[:]
        got=[tuple(norm(x) for x in r) for r in allr]
        if len(got)!=len(rows) or any(not all(same(a,b) for a,b in zip(g,r)) for g,r in zip(got,rows)): note("table",(tag,got[:3],rows[:3]))
        cs=df.columns
        if [c[0] for c in cs]!=[c[0] for c in cols]: note("columns-prop",(tag,[c[0] for c in cs],[c[0] for c in cols]))
        if units is not None:
            gu=list(df.units) if df.units is not None else None
            if gu!=units: note("units",(tag,gu,units))
        for ci,(cn,ct) in enumerate(cols):
            col=df.read_columns(name=[cn]); 
            if [norm(x) for x in col]!=[r[ci] for r in rows] and not all(same(norm(x),r[ci]) for x,r in zip(col,rows)): note("read_columns",(tag,cn))
            if rows:
                ri=rng.randrange(len(rows))
                c1=norm(df.read_cell(position=[ri,ci]))
                if not same(c1, rows[ri][ci]): note("read_cell-pos",(tag,ri,ci,c1,rows[ri][ci]))
        if rows:
            ri=rng.randrange(len(rows)); r=df.read_rows(ri)
            if not all(same(norm(a),b) for a,b in zip(r,rows[ri])): note("read_rows",(tag,ri))
    except Exception as ex:
        note("check-raised",(tag,type(ex).__name__,str(ex)[:80]))
for case in range(int(os.environ.get("N","60"))):
    p="/tmp/scratch/x/c16_%d.nix"%os.getpid()
    f=nix.File.open(p, nix.FileMode.Overwrite); b=f.create_block("b","t")
    ncol=rng.randint(1,5); cols=[]; 
    for i in range(ncol):
        t=rng.choice(list(TYPES)); cols.append((rng.choice(["c","ü","x y","name","id"])+str(i), t))
    def mkrow(): return tuple(TYPES[t][1]() for _,t in cols)
    rows=[mkrow() for _ in range(rng.randint(0,5))]
    variant=rng.choice(["dict","names_dtypes","names_data"] if rows else ["dict","names_dtypes"])
    try:
        if variant=="dict": df=b.create_data_frame("df","t",col_dict=OrderedDict((n,TYPES[t][0]) for n,t in cols), data=rows or None)
        elif variant=="names_dtypes": df=b.create_data_frame("df","t",col_names=[n for n,_ in cols], col_dtypes=[TYPES[t][0] for _,t in cols], data=rows or None)
        else:
            df=b.create_data_frame("df","t",col_names=[n for n,_ in cols], data=rows)
            # inferred types: small->int
    except Exception as ex:
        note("create-raised",(variant,[t for _,t in cols],type(ex).__name__,str(ex)[:80])); f.close(); continue
    if variant=="names_data":
        pass
    units=None
    check(df, cols, rows, units, "create:"+variant)
    for step in range(rng.randint(1,10)):
        op=rng.choice(["append_rows","append_column","write_rows","write_column_name","write_column_idx","write_cell_pos","write_cell_name","units","reopen","bad"])
        nops+=1; opc[op]=opc.get(op,0)+1
        try:
            if op=="append_rows":
                new=[mkrow() for _ in range(rng.randint(1,3))]; df.append_rows(new); rows+=new
            elif op=="append_column":
                t=rng.choice(list(TYPES)); name="n%d"%step; vals=[TYPES[t][1]() for _ in rows]
                if not rows: continue
                df.append_column(vals, name, datatype=TYPES[t][0]); cols.append((name,t)); rows=[r+(v,) for r,v in zip(rows,vals)]
                if units is not None: units=units+[None]
            elif op=="write_rows" and rows:
                idx=sorted(rng.sample(range(len(rows)), rng.randint(1,min(3,len(rows))))); new=[mkrow() for _ in idx]
                df.write_rows(new, idx)
                for i,r in zip(idx,new): rows[i]=r
            elif op=="write_column_name" and rows:
                ci=rng.randrange(len(cols)); vals=[TYPES[cols[ci][1]][1]() for _ in rows]; df.write_column(vals, name=cols[ci][0]); rows=[r[:ci]+(v,)+r[ci+1:] for r,v in zip(rows,vals)]
            elif op=="write_column_idx" and rows:
                ci=rng.choice([0,len(cols)-1,rng.randrange(len(cols))]); vals=[TYPES[cols[ci][1]][1]() for _ in rows]; df.write_column(vals, index=ci); rows=[r[:ci]+(v,)+r[ci+1:] for r,v in zip(rows,vals)]
            elif op=="write_cell_pos" and rows:
                ri=rng.choice([0,len(rows)-1]); ci=rng.choice([0,len(cols)-1]); v=TYPES[cols[ci][1]][1](); df.write_cell(v, position=[ri,ci]); rows[ri]=rows[ri][:ci]+(v,)+rows[ri][ci+1:]
            elif op=="write_cell_name" and rows:
                ri=rng.randrange(len(rows)); ci=rng.randrange(len(cols)); v=TYPES[cols[ci][1]][1](); df.write_cell(v, col_name=cols[ci][0], row_idx=ri); rows[ri]=rows[ri][:ci]+(v,)+rows[ri][ci+1:]
            elif op=="units":
                units=[rng.choice([None,"mV","s"]) for _ in cols]; df.units=units
            elif op=="reopen":
                f.close(); f=nix.File.open(p, rng.choice([nix.FileMode.ReadWrite])); b=f.blocks[0]; df=b.data_frames[0]
            elif op=="bad":
                k=rng.choice(["rows_len","col_len","unknown_col","oob_row","dup_col"])
                try:
                    if k=="rows_len": df.append_rows([mkrow()[:-1]+((1,2),) if False else mkrow()+(1,)])
                    elif k=="col_len": df.write_column([1]*(len(rows)+1), name=cols[0][0])
                    elif k=="unknown_col": df.write_column([TYPES["int"][1]() for _ in rows], name="nope")
                    elif k=="oob_row": df.write_rows([mkrow()],[len(rows)])
                    elif k=="dup_col": df.append_column([TYPES["int"][1]() for _ in rows], cols[0][0])
                    note("bad-accepted",(k,))
                except Exception: pass
        except Exception as ex:
            note("op-raised",(op,type(ex).__name__,str(ex)[:90], [t for _,t in cols]))
            # resync model from file? stop this case
            break
        check(df, cols, rows, units, op)
    f.close()
print("ops",nops,opc)
for k,v in sorted(problems.items(), key=lambda kv:-len(kv[1])):
    print(len(v),k); 
    for d in v[:3]: print("     ",str(d)[:330])
