import sys, os
exec(open("/tmp/scratch/x/hist.py").read().split("problems={}; nhist=")[0])   # reuse engine pieces (snapshot, step, rng...)
import copy
def closure(obj):
    ids={obj.id}
    if isinstance(obj, nix.Block):
        for c in ("data_arrays","tags","multi_tags","groups"):
            for x in getattr(obj,c):
                ids.add(x.id)
                if c in ("tags","multi_tags"):
                    for ft in x.features: ids.add(ft.id)
        for s in obj.find_sources(): ids.add(s.id)
    elif isinstance(obj, nix.Source):
        for s in obj.find_sources(): ids.add(s.id)
    elif isinstance(obj, nix.Section):
        for s in obj.find_sections():
            ids.add(s.id)
            for p in s.props: ids.add(p.id)
    elif isinstance(obj,(nix.Tag,nix.MultiTag)):
        for ft in obj.features: ids.add(ft.id)
    return ids
DANG=("DANGLING",)
def prune_val(v, ids):
    if isinstance(v,(list,tuple)):
        if len(v)==3 and v[0]=="ref" and v[2] in ids: return DANG
        if len(v)==2 and v[0]=="container": return ("container",[x for x in (prune_val(e,ids) for e in v[1]) if x!=DANG])
        return type(v)(prune_val(e,ids) for e in v)
    if isinstance(v,dict): return {k:prune_val(x,ids) for k,x in v.items()}
    return v
def compare(exp, got, path=""):
    """exp may contain DANG: then got may be None or ('raises',..)"""
    diffs=[]
    if exp==DANG:
        if not (got is None or (isinstance(got,(list,tuple)) and len(got)>0 and got[0]=="raises")): diffs.append((path,"dangling-yields",got))
        return diffs
    if isinstance(exp,dict) and isinstance(got,dict):
        for k in set(exp)|set(got):
            if k in ("updated_at",): continue
            if k not in got or k not in exp: diffs.append((path+"/"+str(k),"missing",exp.get(k,"<absent>"),got.get(k,"<absent>"))); continue
            diffs+=compare(exp[k],got[k],path+"/"+str(k))
        return diffs
    if isinstance(exp,(list,tuple)) and isinstance(got,(list,tuple)) and len(exp)==len(got):
        for i,(a,b_) in enumerate(zip(exp,got)): diffs+=compare(a,b_,path+"[%d]"%i)
        return diffs
    if exp!=got: diffs.append((path,"differs",str(exp)[:80],str(got)[:80]))
    return diffs
problems={}; ndel=0; kinds={}
for h in range(int(os.environ.get("N","20"))):
    p="/tmp/scratch/x/c04_%d.nix"%os.getpid()
    f=nix.File.open(p, nix.FileMode.Overwrite)
    for i in range(int(os.environ.get("L","80"))):
        try: step(f)
        except Exception as ex: problems.setdefault(("op-raised",type(ex).__name__,str(ex)[:60]),[]).append(h)
    for d in range(5):
        # choose victim
        cands=[]
        for b in f.blocks:
            cands.append((f.blocks,b))
            for c in ("data_arrays","tags","multi_tags","groups","sources"):
                for x in getattr(b,c): cands.append((getattr(b,c),x))
            for s in b.find_sources():
                for x in s.sources: cands.append((s.sources,x))
        for s in f.find_sections():
            for x in s.sections: cands.append((s.sections,x))
            for x in s.props: cands.append((s.props,x))
        for s in f.sections: cands.append((f.sections,s))
        if not cands: break
        cont,victim=rng.choice(cands)
        try: pre=snapshot(f)
        except AssertionError as ex: problems.setdefault(("pre path disagreement",str(ex)[:100]),[]).append(h); break
        ids=closure(victim); vk=type(victim).__name__; kinds[vk]=kinds.get(vk,0)+1
        exp={k:prune_val(v,ids) for k,v in pre.items() if k[1] not in ids}
        key=rng.choice(["name","id","obj","idx"])
        if key=="idx": key=[x.id for x in cont].index(victim.id)
        elif key=="name": key=victim.name
        elif key=="id": key=victim.id
        else: key=victim
        try: del cont[key]; ndel+=1
        except Exception as ex: problems.setdefault(("delete raised",vk,type(ex).__name__,str(ex)[:60]),[]).append(h); continue
        try: post=snapshot(f)
        except AssertionError as ex: problems.setdefault(("post path disagreement",vk,str(ex)[:160]),[]).append(h); continue
        left=[k for k in post if k[1] in ids]
        if left: problems.setdefault(("deleted still reachable",vk,str(left[:2])),[]).append(h)
        dif=compare(exp,{k:v for k,v in post.items() if k[1] not in ids})
        if dif: problems.setdefault(("collateral/dangling",vk,str(dif[:2])[:260]),[]).append(h)
    f.close()
    # raw scan
print("deletions",ndel,kinds)
for k,v in sorted(problems.items(), key=lambda kv:-len(kv[1])): print(len(v),k)
