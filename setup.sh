#!/bin/sh
# Offline setup: nothing to build or install (pure Python; /venv already has numpy, h5py, pytest).
# Verifies that the interpreter and the imports the checks need are present.
set -e
cd "$(dirname "$0")"
PY="${NIXPY_PYTHON:-/venv/bin/python}"
"$PY" -W ignore -c "import sys, numpy, h5py; sys.path.insert(0, '${NIXPY_REPO:-/repo}'); import nixio; print('setup ok: python', sys.version.split()[0], 'numpy', numpy.__version__, 'h5py', h5py.__version__, 'nixio from', nixio.__file__)"
mkdir -p evidence out/replays
