#!/venv/bin/python
"""usage: tools/mutants_all.py [pattern]  - runs every planted mutant (mutants/cNN_*.diff) against the quick tier of its own check on a
scratch copy of /repo (tools/mutant_run.sh) and records the outcome in mutants/RESULTS.json"""
import glob, json, os, re, subprocess, sys, time
pat = sys.argv[1] if len(sys.argv) > 1 else ""
res_path = "/verif/mutants/RESULTS.json"
res = json.load(open(res_path)) if os.path.exists(res_path) else {}
commit = subprocess.run(["git", "-C", "/repo", "rev-parse", "--short", "HEAD"], capture_output=True, text=True).stdout.strip()
for f in sorted(glob.glob("/verif/mutants/c*.diff")):
    name = os.path.basename(f)[:-5]
    if pat and pat not in name:
        continue
    cid = name[:3].upper()
    t0 = time.time()
    r = subprocess.run(["/verif/tools/mutant_run.sh", f, cid, "quick"], capture_output=True, text=True)
    lines = [l for l in r.stdout.splitlines() if "conda" not in l]
    if any(l.startswith("PATCH-FAILED") for l in lines):
        res[name] = {"check": cid, "outcome": "patch does not apply to the current tree", "repo_commit": commit}
    else:
        mechs = [re.sub(r" first=.*", "", l).strip().replace("mechanism=", "") for l in lines if "mechanism=" in l]
        caught = any(l.startswith("VIOLATION") for l in lines)
        res[name] = {"check": cid, "outcome": "caught" if caught else "MISSED", "mechanisms": mechs[:4],
                     "summary": next((l for l in lines if "verdict=" in l), "?"), "repo_commit": commit, "wall_s": round(time.time() - t0, 1)}
    print(name, res[name]["outcome"], "; ".join(res[name].get("mechanisms", [])[:2]), flush=True)
    json.dump(res, open(res_path, "w"), indent=1, sort_keys=True)
