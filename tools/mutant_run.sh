#!/bin/sh
# usage: tools/mutant_run.sh <patch.diff> <CHECK_ID> [tier]   - runs a check against a scratch copy of /repo with the patch applied
# (never touches /repo; the scratch copy lives under /dev/shm and is removed afterwards)
set -u
patch="$(realpath "$1")"; cid="$2"; tier="${3:-quick}"
here="$(cd "$(dirname "$0")/.." && pwd)"
d="$(mktemp -d /dev/shm/nixmut-XXXXXX)"
trap 'rm -rf "$d"' EXIT
cp -r /repo/nixio "$d/nixio"
( cd "$d" && patch -p1 -s < "$patch" ) || { echo "PATCH-FAILED $patch"; exit 3; }
cd "$here" && NIXPY_REPO="$d" ./check "$cid" --tier "$tier" --no-evidence ${4:+--seed $4} 2>&1 | grep -v -i conda
