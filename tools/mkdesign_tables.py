#!/venv/bin/python
"""Rewrites the generated tables of DESIGN.md (between <!-- BEGIN:x --> and <!-- END:x -->) from mutants/RESULTS.json and seeded/*/meta.json."""
import glob, json, os, re
V = "/verif"
doc = open(V + "/DESIGN.md").read()


def put(tag, text):
    global doc
    a, b = "<!-- BEGIN:%s -->" % tag, "<!-- END:%s -->" % tag
    i, j = doc.index(a) + len(a), doc.index(b)
    doc = doc[:i] + "\n" + text.rstrip() + "\n" + doc[j:]


def mech(ms, n=2):
    out = []
    for m in ms[:n]:
        m = re.sub(r"^mechanism=", "", m)
        m = re.sub(r" count=\d+$", "", m)
        out.append("`%s`" % m[:70])
    return ", ".join(out)


res = json.load(open(V + "/mutants/RESULTS.json")) if os.path.exists(V + "/mutants/RESULTS.json") else {}
rows = ["| mutant | check | outcome (quick tier) | first mechanisms reported |", "|---|---|---|---|"]
for name in sorted(res):
    r = res[name]
    rows.append("| %s | %s | %s | %s |" % (name, r["check"], r["outcome"], mech(r.get("mechanisms", []))))
n_c = sum(1 for r in res.values() if r["outcome"] == "caught")
rows.append("")
rows.append("%d of %d planted defects are reported by the quick tier of their check on the current tree." % (n_c, len(res)))
put("mutants", "\n".join(rows))

rows = ["| seed | property | needs, to manifest | quick tier of the property's check | other checks that report it |", "|---|---|---|---|---|"]
tot = caught = obsolete = 0
for d in sorted(glob.glob(V + "/seeded/*/meta.json")):
    m = json.load(open(d))
    prop = m["breaks_property"]
    need = re.sub(r"\*\*|`", "", (m.get("needs_to_manifest") or "")).replace("|", "/").replace("\n", " ")
    need = re.sub(r"^Trigger[^:]*:\s*", "", need)[:150]
    det = m.get("detected_by", {})
    own = det.get("%s:quick" % prop, {})
    others = [k.split(":")[0] for k, v in det.items() if v.get("caught") and not k.startswith(prop + ":")]
    if m.get("obsolete_after_repair") or str(m.get("status", "")).startswith("obsolete"):
        why = (m.get("obsolete_after_repair") or {}).get("repo_commit") or re.search(r"repo fix (\w+)", m.get("status", "") or "").group(1)
        state = "obsolete: after repair %s the change no longer breaks the property (demo passes with the patch)" % why
        obsolete += 1
    else:
        tot += 1
        if own.get("caught"):
            caught += 1
            state = "caught: " + mech(own.get("mechanisms", []))
        elif own.get("caught") is None:
            state = own.get("note", "not run")
        else:
            state = "MISSED"
    extra = m.get("strengthened")
    if extra:
        state += " - added for it: " + extra
    rows.append("| %s | %s | %s | %s | %s |" % (m["id"], prop, need, state, ", ".join(others) or "-"))
rows.append("")
rows.append("%d of the %d live seeded changes are reported by the quick tier of the check of the property they break; %d further seeds became "
            "obsolete when the defect family they relied on was repaired in `/repo`." % (caught, tot, obsolete))
put("seeds", "\n".join(rows))
open(V + "/DESIGN.md", "w").write(doc)
print("mutants", len(res), "caught", n_c, "| seeds live", tot, "caught", caught, "obsolete", obsolete)
