#!/bin/sh
# usage: tools/runall.sh [tier] [seed] [--no-evidence]   - runs every claimed check once, prints one summary line per check (+ any VIOLATION / INCONCLUSIVE lines)
tier="${1:-quick}"; seed="${2:-}"; extra="${3:-}"
cd "$(dirname "$0")/.." || exit 2
rc=0
for c in C01 C02 C03 C04 C05 C06 C07 C08 C09 C10 C11 C12 C13 C14 C15 C16 C17 C18 C19 C20; do
  out="$(./check $c --tier "$tier" ${seed:+--seed $seed} $extra 2>&1)"; r=$?
  echo "$out" | grep -E "^(VIOLATION|INCONCLUSIVE|  mechanism)" | cut -c1-400
  echo "$out" | grep -E "^$c tier" | sed "s/^/rc=$r /"
  [ $r -ne 0 ] && rc=1
done
exit $rc
