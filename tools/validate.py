#!/usr/bin/env python3-vt
"""Validate MANIFEST.json and evidence files against the schemas (needs jsonschema: run with python3-vt)."""
import glob, json, sys, jsonschema
ok = True
m = json.load(open("/verif/MANIFEST.json"))
jsonschema.validate(m, json.load(open("/root/.vp/MANIFEST.schema.json")))
sch = json.load(open("/root/.vp/EVIDENCE.schema.json"))
for c in m["checks"]:
    p = c["evidence_file"]
    try:
        ev = json.load(open(p)); jsonschema.validate(ev, sch)
        assert ev["level"] == c["level_claimed"]["category"], "level mismatch"
        print("ok  ", p, ev["tier"], ev["coverage"]["evaluations"], ev["coverage"]["distinct_nontrivial"], ev.get("violations"))
    except Exception as e:
        ok = False; print("BAD ", p, str(e)[:200])
claimed = {c["property_id"] for c in m["checks"]} | {n["property_id"] for n in m.get("not_applicable", [])}
allp = {json.loads(l)["id"] for l in open("/verif/properties.jsonl")}
if claimed != allp: ok = False; print("properties not accounted for:", allp ^ claimed)
sys.exit(0 if ok else 1)
