#!/bin/sh
# usage: tools/seed_verify.sh <dir with patch.diff + demo.py>   - confirms a seeded change in a scratch worktree of /repo:
#   demo passes without the patch, fails with it, the repository's own suite gives the same result as on the clean tree.
# The worktree lives under /tmp and is removed afterwards.
set -u
src="$(realpath "$1")"
wt="$(mktemp -d /tmp/seedverify-XXXXXX)"; rmdir "$wt"
git -C /repo worktree add -q --detach "$wt" HEAD || exit 3
trap 'git -C /repo worktree remove --force "$wt" 2>/dev/null; rm -rf "$wt"' EXIT
cd "$wt"
cp "$src/demo.py" ./_demo.py
/venv/bin/python _demo.py >/tmp/seedverify.$$.clean 2>&1; rc_clean=$?
git apply "$src/patch.diff" || { echo "APPLY-FAILED"; exit 3; }
/venv/bin/python _demo.py >/tmp/seedverify.$$.patched 2>&1; rc_patched=$?
rm -f _demo.py
suite="$(/venv/bin/python -m pytest -q -p no:cacheprovider -n ${SEED_JOBS:-8} --timeout=900 --continue-on-collection-errors 2>&1 | grep -v conda | tail -1)"
failed="$(/venv/bin/python -m pytest -q -p no:cacheprovider -n ${SEED_JOBS:-8} --timeout=900 --continue-on-collection-errors 2>&1 | grep '^FAILED' | grep -v -E 'test_tagged_feature|test_tagging_example|test_untagged_feature|test_spike_features' | head -5)"
echo "demo clean rc=$rc_clean  patched rc=$rc_patched"
echo "patched demo tail: $(tail -3 /tmp/seedverify.$$.patched | tr '\n' ' ' | cut -c1-400)"
echo "suite with patch: $suite"
[ -n "$failed" ] && echo "UNEXPECTED FAILURES: $failed"
rm -f /tmp/seedverify.$$.*
if [ "$rc_clean" = 0 ] && [ "$rc_patched" != 0 ] && [ -z "$failed" ]; then echo "SEED-CONFIRMED"; else echo "SEED-REJECTED"; exit 1; fi
