#!/venv/bin/python
"""Regenerate /verif/MANIFEST.json from the check modules (single source of truth)."""
import importlib
import json
import os
import sys

HERE = os.path.dirname(os.path.dirname(os.path.abspath(__file__)))
sys.path.insert(0, HERE)

ALL = ["C%02d" % i for i in range(1, 21)]
BASELINE = ("cd /repo && /venv/bin/python -m pytest -ra -q -p no:cacheprovider --timeout=900 "
            "--continue-on-collection-errors")

checks, missing = [], []
for cid in ALL:
    path = os.path.join(HERE, "nixmon", "checks", cid.lower() + ".py")
    if not os.path.exists(path):
        missing.append(cid)
        continue
    mod = importlib.import_module("nixmon.checks." + cid.lower())
    if getattr(mod, "NOT_READY", False):
        missing.append(cid)
        continue
    checks.append({
        "property_id": cid,
        "quick_cmd": "./check %s --tier quick" % cid,
        "thorough_cmd": "./check %s --tier thorough" % cid,
        "evidence_file": "/verif/evidence/%s.json" % cid,
        "replay_cmd_template": "./check %s --replay {path}" % cid,
        "engine": "nixmon",
        "level_claimed": {"category": mod.LEVEL,
                          "text": getattr(mod, "LEVEL_TEXT", mod.RULE),
                          "design_ref": "DESIGN.md section 2, " + cid},
        "level_note": "; ".join(mod.ASSUMPTIONS),
        "technique": mod.TECHNIQUE,
    })

na_reasons = {}
try:
    with open(os.path.join(HERE, "not_applicable.json")) as fh:
        na_reasons = json.load(fh)
except FileNotFoundError:
    pass

manifest = {
    "version": 1,
    "setup_cmd": "./setup.sh",
    "hooks": {
        "guard": "NIXPY_VERIF",
        "enable": ("no source hooks: with NIXPY_VERIF=1 in the check's environment the harness imports nixio from "
                   "/repo's working tree (pure Python, nothing to build) and attaches its monitors by rebinding "
                   "attributes on the imported classes (logical clock, low-level write probes, upgrade failpoints)"),
        "baseline_off_cmd": BASELINE,
        "source_commits": [],
        "add_only": True,
    },
    "engines": [{"name": "nixmon", "path": "/verif/nixmon",
                 "serves_properties": [c["property_id"] for c in checks],
                 "kind_free_text": ("runtime monitoring: seeded workload generators drive the real library in "
                                    "subprocess shards; oracles = reference models (NumPy, exact rationals, SI tables, "
                                    "shadow data model), whole-file snapshots before/after monitored events, "
                                    "raw HDF5 scans, fault/kill injection")}],
    "checks": checks,
    "notes": ("Exit codes: 0 held on everything observed, 1 violation (VIOLATION line + replay file), 2 inconclusive "
              "(never on the unchanged tree).  Known findings: /verif/known_findings.json.  See DESIGN.md."),
    "not_applicable": [{"property_id": c, "reason": na_reasons.get(c, "check not built yet in this session; "
                        "not claimed until its oracle has been validated (DESIGN.md 1.7)")} for c in missing],
}
with open(os.path.join(HERE, "MANIFEST.json"), "w") as fh:
    json.dump(manifest, fh, indent=1)
print("checks:", [c["property_id"] for c in checks], "unclaimed:", missing)
