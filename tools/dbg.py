#!/venv/bin/python
"""usage: tools/dbg.py <CHECK> <shard index> [tier] [seed]  - runs one shard of a check in-process and prints what it reported"""
import json, os, sys
sys.path.insert(0, os.path.dirname(os.path.dirname(os.path.abspath(__file__))))
os.environ.setdefault("NIXPY_VERIF", "1")
from nixmon import core, env
from nixmon.checks import load
cid, shard = sys.argv[1].upper(), int(sys.argv[2])
tier = sys.argv[3] if len(sys.argv) > 3 else "quick"
seed = int(sys.argv[4]) if len(sys.argv) > 4 else env.DEFAULT_SEED
mod = load(cid)
specs = mod.plan(tier, seed)
ctx = core.Ctx(cid, tier, seed, shard, len(specs))
mod.run_shard(specs[shard], ctx)
d = ctx.dump()
print("evaluations", d["evaluations"], "distinct", len(d["signatures"]), "wall", round(d["wall_s"], 1))
print("counters", json.dumps(d["counters"], sort_keys=True))
for k, v in sorted(d["violations"].items()):
    print("VIOL", k, v["count"], json.dumps(v["witnesses"][0]["detail"])[:700])
for h in d["harness_errors"]:
    print("HARNESS", h["where"], h["error"][-1500:])
for k, v in sorted(d["observations"].items()):
    print("OBS", k, v["count"], json.dumps(v["first"])[:200])
