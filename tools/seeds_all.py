#!/venv/bin/python
"""usage: tools/seeds_all.py [pattern]  - re-runs every stored seeded change (seeded/<id>/patch.diff) against the quick tier of the check of the
property it breaks, on a scratch copy of the CURRENT /repo, and updates seeded/<id>/meta.json (detected_by)."""
import glob, json, os, re, subprocess, sys, time
pat = sys.argv[1] if len(sys.argv) > 1 else ""
commit = subprocess.run(["git", "-C", "/repo", "rev-parse", "--short", "HEAD"], capture_output=True, text=True).stdout.strip()
for d in sorted(glob.glob("/verif/seeded/*/")):
    sid = os.path.basename(d.rstrip("/"))
    if pat and pat not in sid:
        continue
    mp = os.path.join(d, "meta.json")
    meta = json.load(open(mp))
    if meta.get("obsolete_after_repair") or str(meta.get("status", "")).startswith("obsolete"):
        print(sid, "obsolete after a repair")
        continue
    checks = sorted({k.split(":")[0] for k in meta.get("detected_by", {})} | {meta["breaks_property"]})
    for cid in checks:
        t0 = time.time()
        r = subprocess.run(["/verif/tools/mutant_run.sh", os.path.join(d, "patch.diff"), cid, "quick"], capture_output=True, text=True)
        lines = [l for l in r.stdout.splitlines() if "conda" not in l]
        if any(l.startswith("PATCH-FAILED") for l in lines):
            meta.setdefault("detected_by", {})["%s:quick" % cid] = {"caught": None, "note": "patch does not apply to the current tree", "repo_commit": commit}
            print(sid, cid, "PATCH-FAILED", flush=True)
            continue
        mechs = [re.sub(r" first=.*", "", l).strip() for l in lines if "mechanism=" in l]
        caught = any(l.startswith("VIOLATION") for l in lines)
        meta.setdefault("detected_by", {})["%s:quick" % cid] = {"caught": caught, "mechanisms": mechs[:6], "summary": next((l for l in lines if "verdict=" in l), "?"),
                                                               "repo_commit": commit, "wall_s": round(time.time() - t0, 1)}
        print(sid, cid, "CAUGHT" if caught else "MISSED", "; ".join(mechs[:2])[:200], flush=True)
    json.dump(meta, open(mp, "w"), indent=1, ensure_ascii=False)
