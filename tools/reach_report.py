#!/venv/bin/python
"""usage: tools/reach_report.py [C07 ...]  - prints, from the evidence files, what the monitored shards of each check never entered in the anchored files."""
import glob, json, os, sys
want = [a.upper() for a in sys.argv[1:]]
for p in sorted(glob.glob("/verif/evidence/C*.json")):
    e = json.load(open(p))
    if want and e["property_id"] not in want:
        continue
    r = e["coverage"].get("reach")
    if not r:
        print(e["property_id"], "no reach block"); continue
    print("%s tier=%s lines %d/%d functions %d/%d" % (e["property_id"], e["tier"], r["executed_lines"], r["executable_lines"], r["functions_entered"], r["functions"]))
    for f, d in r["files"].items():
        miss = sorted(set(d["functions_never_entered"]))
        print("   %-32s lines %4d/%4d  fn %3d/%3d  never: %s" % (f, d["executed_lines"], d["executable_lines"], d["functions_entered"], d["functions"], ", ".join(miss)))
