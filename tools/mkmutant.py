#!/venv/bin/python
"""usage: tools/mkmutant.py <name> <repo-relative file> <<< JSON [[old, new], ...]
Writes mutants/<name>.diff = the given textual replacements applied to /repo's current file (each `old` must occur exactly once)."""
import difflib, json, sys
name, rel = sys.argv[1:3]
reps = json.load(sys.stdin)
src = open("/repo/" + rel).read()
dst = src
for old, new in reps:
    assert dst.count(old) == 1, (dst.count(old), old)
    dst = dst.replace(old, new)
d = "".join(difflib.unified_diff(src.splitlines(True), dst.splitlines(True), "a/" + rel, "b/" + rel))
open("/verif/mutants/%s.diff" % name, "a" if "--append" in sys.argv else "w").write(d)
print(d)
