#!/venv/bin/python
"""usage: tools/seed_adopt.py <PROP> <variant> [--checks C01,C06] [--tier quick] [--needs "..."]
Confirms a sub-agent's seeded change (tools/seed_verify.sh), stores it as /verif/seeded/<PROP><variant>/ and runs the named
checks (default: the property's own) against a scratch copy of /repo with the patch applied (tools/mutant_run.sh)."""
import argparse, json, os, re, shutil, subprocess, sys, time
ap = argparse.ArgumentParser()
ap.add_argument("prop"); ap.add_argument("variant")
ap.add_argument("--checks", default=None); ap.add_argument("--tier", default="quick"); ap.add_argument("--src", default="/tmp/seed_out")
ap.add_argument("--skip-verify", action="store_true")
a = ap.parse_args()
src = os.path.join(a.src, a.prop, a.variant)
sid = a.prop + a.variant
dst = os.path.join("/verif/seeded", sid)
meta_path = os.path.join(dst, "meta.json")
meta = json.load(open(meta_path)) if os.path.exists(meta_path) else {}
if not a.skip_verify:
    r = subprocess.run(["/verif/tools/seed_verify.sh", src], capture_output=True, text=True)
    out = "\n".join(l for l in r.stdout.splitlines() if "conda" not in l)
    print(out)
    if "SEED-CONFIRMED" not in out:
        print("not adopted"); sys.exit(1)
    os.makedirs(dst, exist_ok=True)
    for fn in ("patch.diff", "demo.py", "notes.md"):
        if os.path.exists(os.path.join(src, fn)):
            shutil.copy(os.path.join(src, fn), os.path.join(dst, fn))
    notes = open(os.path.join(dst, "notes.md")).read() if os.path.exists(os.path.join(dst, "notes.md")) else ""
    meta.update({"id": sid, "breaks_property": a.prop, "origin": "sub-agent given only the property text and a scratch worktree",
                 "confirmed": {"how": "tools/seed_verify.sh: scratch worktree of /repo HEAD; demo.py exit 0 without patch, exit 1 with patch; repository suite with patch",
                               "repo_commit": subprocess.run(["git", "-C", "/repo", "rev-parse", "--short", "HEAD"], capture_output=True, text=True).stdout.strip(),
                               "output": out.splitlines()[-4:]},
                 "needs_to_manifest": meta.get("needs_to_manifest") or next((l.strip() for l in notes.splitlines() if re.search(r"trigger|needs|manifest", l, re.I)), "")[:600]})
checks = [] if a.checks == "none" else (a.checks or a.prop).split(",")
res = meta.setdefault("detected_by", {})
for c in checks:
    t0 = time.time()
    r = subprocess.run(["/verif/tools/mutant_run.sh", os.path.join(dst, "patch.diff"), c, a.tier], capture_output=True, text=True)
    lines = [l for l in r.stdout.splitlines() if "conda" not in l]
    mechs = [re.sub(r" first=.*", "", l).strip() for l in lines if "mechanism=" in l]
    verdict = next((l for l in lines if "verdict=" in l), "?")
    caught = any(l.startswith("VIOLATION") for l in lines)
    res["%s:%s" % (c, a.tier)] = {"caught": caught, "mechanisms": mechs[:6], "summary": verdict, "wall_s": round(time.time() - t0, 1)}
    print("%s %s %s -> %s  %s" % (sid, c, a.tier, "CAUGHT" if caught else "MISSED", "; ".join(mechs[:3])))
json.dump(meta, open(meta_path, "w"), indent=1, ensure_ascii=False)
