"""Layer B - the oracles of C03, C06, C07, C09, C15 and C19 attached to the REAL functions while a foreign workload runs
(the repository's own test-suite and doc examples):   pytest -p nixmon.passive.plugin

Every monitor wraps a function of the imported library, lets the original run, judges the outcome with an oracle that is
valid for every input of its class, RECORDS the verdict and always returns / re-raises what the original did - it never
alters control flow.  Verdicts are written per pytest-xdist worker to $NIXMON_PASSIVE_OUT/<pid>.json at session end.
Calls whose oracle is ambiguous (a position inside the library's float tolerance band, a unit that is not atomic, ...) are
counted as skipped, never judged.  NIXMON_PASSIVE_MONITORS = comma separated subset of {C03, C06, C07, C09, C15, C19}.
"""
import json
import math
import os
import re
import threading
from fractions import Fraction as F

STATE = {"counters": {}, "violations": {}, "errors": []}
_local = threading.local()

PREF = {"": 0, "Y": 24, "Z": 21, "E": 18, "P": 15, "T": 12, "G": 9, "M": 6, "k": 3, "h": 2, "da": 1, "d": -1, "c": -2, "m": -3, "u": -6,
        "n": -9, "p": -12, "f": -15, "a": -18, "z": -21, "y": -24}
UNITS = ("m", "g", "s", "A", "K", "mol", "cd", "Hz", "N", "Pa", "J", "W", "C", "V", "F", "S", "Wb", "T", "H", "lm", "lx", "Bq", "Gy", "Sv", "kat",
         "l", "L", "Ohm", "%", "dB", "rad")


def count(k, n=1):
    STATE["counters"][k] = STATE["counters"].get(k, 0) + n


def violation(mech, detail):
    v = STATE["violations"].setdefault(mech, {"count": 0, "witnesses": []})
    v["count"] += 1
    if len(v["witnesses"]) < 3:
        v["witnesses"].append({"detail": json.loads(json.dumps(detail, default=repr)), "replay": None,
                               "test": os.environ.get("PYTEST_CURRENT_TEST", "?")})


def guarded(fn):
    """run a judge; an exception inside the judge is a monitor error, never the library's problem"""
    if getattr(_local, "busy", False):
        return
    _local.busy = True
    try:
        fn()
    except Exception as e:      # noqa
        if len(STATE["errors"]) < 20:
            STATE["errors"].append("%s: %r" % (getattr(fn, "__name__", "judge"), e))
        count("monitor_errors")
    finally:
        _local.busy = False


def busy():
    return getattr(_local, "busy", False)


# ---------------------------------------------------------------------------------------------------------------------
def install_c09(nix):
    U = nix.util.units
    orig_scaling, orig_scalable = U.scaling, U.scalable

    def parse(u):
        if not isinstance(u, str):
            return None
        m = re.fullmatch(r"(.+?)(\^([+-]?[1-9]\d*))?", u)
        if not m:
            return None
        body, pw = m.group(1), int(m.group(3)) if m.group(3) else 1
        c = [(p, body[len(p):]) for p in PREF if body.startswith(p) and body[len(p):] in UNITS]
        return (c, pw) if c else None

    def expected_factor(a, b):
        pa, pb = parse(a), parse(b)
        if pa is None or pb is None:
            return "not_atomic"
        common = [(x, y) for x in pa[0] for y in pb[0] if x[1] == y[1]]
        if len(pa[0]) > 1 or len(pb[0]) > 1:
            return "ambiguous"
        if not common or pa[1] != pb[1]:
            return None
        (p1, _), (p2, _) = common[0]
        return 10.0 ** ((PREF[p1] - PREF[p2]) * pa[1])

    def scaling(origin, destination):
        try:
            out = orig_scaling(origin, destination)
            exc = None
        except Exception as e:
            out, exc = None, e

        def judge():
            e = expected_factor(origin, destination)
            if e in ("not_atomic", "ambiguous"):
                count("C09.scaling.skipped_" + e)
                if e == "not_atomic" and exc is None:
                    violation("C09:scaling_accepted_non_atomic_unit", {"a": origin, "b": destination, "got": out})
                return
            count("C09.scaling.judged")
            if e is None:
                if exc is None:
                    violation("C09:scaling_not_refused", {"a": origin, "b": destination, "got": out})
            elif exc is not None:
                violation("C09:scaling_refused_scalable_pair", {"a": origin, "b": destination, "error": repr(exc)})
            elif not math.isclose(out, e, rel_tol=1e-12):
                violation("C09:scaling_wrong", {"a": origin, "b": destination, "expected": e, "got": out})
        guarded(judge)
        if exc is not None:
            raise exc
        return out

    def scalable(a, b):
        out = orig_scalable(a, b)

        def judge():
            if not (isinstance(a, str) and isinstance(b, str)):
                count("C09.scalable.skipped_lists")
                return
            e = expected_factor(a, b)
            if e == "ambiguous":
                count("C09.scalable.skipped_ambiguous")
                return
            count("C09.scalable.judged")
            want = e not in (None, "not_atomic")
            if bool(out) != want:
                violation("C09:scalable_wrong", {"a": a, "b": b, "expected": want, "got": bool(out)})
        guarded(judge)
        return out
    U.scaling, U.scalable = scaling, scalable


# ---------------------------------------------------------------------------------------------------------------------
def install_c07(nix):
    from nixio import dimensions as D
    IM = D.IndexMode

    def expect(coord, n, p, mode):
        if mode in (IM.LessOrEqual, IM.Less):
            best = None
            for i in range(n):
                c = coord(i)
                if (c <= p) if mode == IM.LessOrEqual else (c < p):
                    best = i
                else:
                    break
            return best
        for i in range(n):
            if coord(i) >= p:
                return i
        return None

    def wrap(cls, kind, oracle):
        orig = cls.index_of

        def index_of(self, position, mode=IM.LessOrEqual, *a, **kw):
            try:
                out = orig(self, position, mode, *a, **kw)
                exc = None
            except IndexError as e:
                out, exc = None, e

            def judge():
                r = oracle(self, position, mode, a, kw)
                if r == "skip":
                    count("C07.%s.skipped" % kind)
                    return
                count("C07.%s.judged" % kind)
                got = None if exc is not None else int(out)
                if got != r:
                    violation("C07:%s.index_of:%s:%s" % (kind, mode.name, "raised_but_exists" if got is None else ("returned_but_none_exists" if r is None else "wrong_index")),
                              {"position": float(position), "mode": mode.name, "expected": r, "got": got})
            guarded(judge)
            if exc is not None:
                raise exc
            return out
        cls.index_of = index_of

    def sampled(self, position, mode, a, kw):
        iv, off = self.sampling_interval, self.offset or 0
        if not iv or iv <= 0 or mode not in (IM.LessOrEqual, IM.Less, IM.GreaterOrEqual):
            return "skip"
        k = (F(float(position)) - F(float(off))) / F(float(iv))
        fl = k.numerator // k.denominator
        fr = k - fl
        if abs(k) > 2000 or (fr != 0 and (fr < F(1, 20) or fr > F(19, 20))) or (fr == 0 and fl == 0 and (float(position) - float(off)) / float(iv) < 0):
            return "skip"               # inside (or at the edge of) the library's documented tolerance band (A3)
        if mode == IM.LessOrEqual:
            return fl if k >= 0 else None
        if mode == IM.Less:
            e = fl - 1 if fr == 0 else fl
            return e if e >= 0 else None
        return max(0, fl if fr == 0 else fl + 1)

    def ranged(self, position, mode, a, kw):
        ticks = kw.get("ticks", a[0] if a else None)
        tk = [F(float(x)) for x in (ticks if ticks is not None else self.ticks)]
        if not tk or mode not in (IM.LessOrEqual, IM.Less, IM.GreaterOrEqual) or any(x > y for x, y in zip(tk[:-1], tk[1:])):
            return "skip"
        return expect(lambda i: tk[i], len(tk), F(float(position)), mode)

    def setd(self, position, mode, a, kw):
        labels = kw.get("dim_labels", a[0] if a else None)
        labels = labels if labels is not None else self.labels
        if mode not in (IM.LessOrEqual, IM.Less, IM.GreaterOrEqual):
            return "skip"
        p = F(float(position))
        n = len(labels) if labels else int(max(p, 0)) + 3       # label-less: unbounded
        return expect(lambda i: F(i), n, p, mode)
    wrap(D.SampledDimension, "sampled", sampled)
    wrap(D.RangeDimension, "range", ranged)
    wrap(D.SetDimension, "set", setd)


# ---------------------------------------------------------------------------------------------------------------------
def same(np, a, b):
    a, b = np.asarray(a), np.asarray(b)
    if a.shape != b.shape:
        return False
    if a.dtype.kind in "fc" or b.dtype.kind in "fc":
        return bool(np.array_equal(a, b, equal_nan=True))
    return bool(np.array_equal(a, b))


def install_c15(nix):
    import numpy as np
    DA = nix.DataArray
    orig = DA._read_data

    def _read_data(self, sl=None):
        out = orig(self, sl)

        def judge():
            raw = np.array(self._h5group.get_dataset("data").read_data(sl))
            if not len(raw.shape):
                raw = raw.reshape((1,))
            coeff = [float(c) for c in self.polynom_coefficients]
            origin = self.expansion_origin
            if raw.dtype.kind not in "iufb":
                count("C15.skipped_non_numeric")
                return
            count("C15.reads_judged")
            if coeff or origin:
                x = raw.astype(np.float64) - float(origin or 0.0)
                exp = sum(c * x ** k for k, c in enumerate(coeff)) if coeff else x
                exp = np.asarray(exp, dtype=np.float64)
                bound = 1e-12 * (sum(abs(c) * np.abs(x) ** k for k, c in enumerate(coeff)) if coeff else np.abs(x)) + 1e-300
                got = np.asarray(out)
                if got.dtype != np.float64:
                    violation("C15:calibrated_read_not_float64", {"dtype": str(got.dtype)})
                elif got.shape != exp.shape or not bool(np.all((np.abs(got - exp) <= bound) | (np.isnan(got) & np.isnan(exp)) | (got == exp))):
                    violation("C15:calibrated_read_wrong", {"coefficients": coeff, "origin": origin, "expected": exp.ravel()[:6].tolist(), "got": got.ravel()[:6].tolist()})
            else:
                got = np.asarray(out)
                if got.dtype != raw.dtype or not same(np, got, raw):
                    violation("C15:uncalibrated_read_differs_from_stored", {"stored_dtype": str(raw.dtype), "read_dtype": str(got.dtype)})
        guarded(judge)
        return out
    DA._read_data = _read_data


def install_c06(nix):
    import numpy as np
    from nixio.data_view import DataView
    orig = DataView._read_data

    def _read_data(self, sl=None):
        try:
            out = orig(self, sl)
            exc = None
        except Exception as e:
            out, exc = None, e

        def judge():
            if not self.valid:
                count("C06.skipped_invalid_view")
                return
            idx = sl if isinstance(sl, tuple) else (sl,)
            if any(not (x is None or x is Ellipsis or isinstance(x, (int, np.integer, slice))) for x in idx) or len([x for x in idx if x is not Ellipsis]) > len(self._slices):
                count("C06.skipped_fancy_or_overlong")
                return
            if any(isinstance(x, slice) and x.step is not None and x.step <= 0 for x in idx):
                count("C06.skipped_nonpositive_step")
                return
            full = np.asarray(self.array._read_data())
            window = full[tuple(self._slices)]
            try:
                exp = window[sl] if sl is not None else window
            except IndexError:
                exp = IndexError
            count("C06.view_reads_judged")
            if exp is IndexError:
                if exc is None:
                    violation("C06:view_read_out_of_range_yields_data", {"index": repr(sl), "window": repr(self._slices)})
                return
            if exc is not None:
                violation("C06:view_read_raises_%s" % type(exc).__name__, {"index": repr(sl), "window": repr(self._slices), "error": repr(exc)})
                return
            exp = np.asarray(exp)
            got = np.asarray(out)
            if exp.shape == () and got.shape == (1,):
                exp = exp.reshape((1,))
            if not same(np, got, exp):
                violation("C06:view_read_differs_from_numpy", {"index": repr(sl), "window": repr(self._slices), "expected": exp.ravel()[:6].tolist(),
                                                              "got": got.ravel()[:6].tolist(), "shapes": [list(exp.shape), list(got.shape)]})
        guarded(judge)
        if exc is not None:
            raise exc
        return out
    DataView._read_data = _read_data


def install_c03(nix):
    from nixio.container import Container
    orig_get = Container.__getitem__
    n = {"calls": 0}

    def __getitem__(self, item):
        try:
            out = orig_get(self, item)
            exc = None
        except Exception as e:
            out, exc = None, e

        def judge():
            n["calls"] += 1
            if n["calls"] % 4:
                count("C03.lookups_not_sampled")
                return
            first = next(iter(self), None)
            if first is not None and not hasattr(first, "id"):
                count("C03.skipped_container_of_objects_without_id")
                return
            items = [(x.name if hasattr(x, "name") else None, x.id) for x in self]
            count("C03.lookups_judged")
            if len(items) != len(self):
                violation("C03:len_disagrees_with_iteration", {"len": len(self), "iterated": len(items)})
            if isinstance(item, int):
                i = item + len(items) if item < 0 else item
                if 0 <= i < len(items):
                    if exc is not None or out.id != items[i][1]:
                        violation("C03:index_lookup_disagrees_with_iteration", {"index": item, "got": None if exc else out.id, "expected": items[i][1]})
                elif exc is None:
                    violation("C03:index_out_of_range_yields_entity", {"index": item, "len": len(items)})
            elif isinstance(item, str):
                hits = [x for x in items if x[0] == item or x[1] == item]
                if hits and (exc is not None or out.id not in [h[1] for h in hits]):
                    violation("C03:name_or_id_lookup_misses_member", {"key": item[:60], "error": repr(exc)})
                elif not hits and exc is None and type(self).__name__ != "FeatureContainer":
                    violation("C03:lookup_of_absent_key_yields_entity", {"key": item[:60], "got": out.id})
        guarded(judge)
        if exc is not None:
            raise exc
        return out
    Container.__getitem__ = __getitem__


def install_c19(nix):
    """Every write of a 'created_at' / 'updated_at' attribute, whoever issues it: the creation time of an existing entity changes
    only inside force_created_at; the update time goes backwards only inside a force_updated_at that was given a time."""
    from nixio.hdf5.h5group import H5Group
    from nixio.entity import Entity
    from nixio.file import File
    from nixio.feature import Feature
    from nixio.util import str_to_time
    orig_set = H5Group.set_attr

    def wrap_force(cls, name, which):
        orig = getattr(cls, name, None)
        if orig is None:
            return

        def forced(self, time=None):
            prev = getattr(_local, "force", None)
            _local.force = (which, time is not None)
            try:
                return orig(self) if time is None else orig(self, time)
            finally:
                _local.force = prev
        forced.__name__ = name
        setattr(cls, name, forced)
    for cls in (Entity, File, Feature):
        wrap_force(cls, "force_created_at", "created_at")
        wrap_force(cls, "force_updated_at", "updated_at")

    def set_attr(self, name, value):
        old = None
        if name in ("created_at", "updated_at") and not busy():
            try:
                old = self.get_attr(name)
            except Exception:
                old = None
        out = orig_set(self, name, value)
        if name in ("created_at", "updated_at") and old is not None and not busy():
            def judge():
                force = getattr(_local, "force", None)
                a, b = str_to_time(old), str_to_time(value if not isinstance(value, bytes) else value.decode())
                count("C19.%s_rewrites_judged" % name)
                if name == "created_at" and a != b and not (force and force[0] == "created_at"):
                    violation("C19:created_at_changed_outside_force_created_at", {"before": a, "after": b, "group": getattr(self, "name", None)})
                if name == "updated_at" and b < a and not (force and force[0] == "updated_at" and force[1]):
                    violation("C19:updated_at_moved_backwards", {"before": a, "after": b, "group": getattr(self, "name", None)})
            guarded(judge)
        return out
    H5Group.set_attr = set_attr


INSTALLERS = {"C19": install_c19, "C03": install_c03, "C06": install_c06, "C07": install_c07, "C09": install_c09, "C15": install_c15}


def pytest_configure(config):
    if os.environ.get("NIXPY_VERIF") != "1":
        return
    import nixio
    wanted = [m for m in os.environ.get("NIXMON_PASSIVE_MONITORS", ",".join(sorted(INSTALLERS))).split(",") if m]
    for m in wanted:
        INSTALLERS[m](nixio)
        count("installed:" + m)
    STATE["nixio_file"] = nixio.__file__


def pytest_runtest_logreport(report):
    if report.when == "call":
        count("tests_" + report.outcome)


def pytest_sessionfinish(session, exitstatus):
    out = os.environ.get("NIXMON_PASSIVE_OUT")
    if not out or os.environ.get("NIXPY_VERIF") != "1":
        return
    os.makedirs(out, exist_ok=True)
    with open(os.path.join(out, "%d.json" % os.getpid()), "w") as fh:
        json.dump(STATE, fh)
