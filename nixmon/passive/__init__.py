"""Layer B: run the repository's own test-suite with the monitors of plugin.py attached, collect what they saw."""
import glob
import json
import os
import shutil
import subprocess
import tempfile

from .. import env


def run_repo_suite(monitors, timeout=1500, jobs=16, select=None):
    """Runs pytest in the repository under test with the Layer-B plugin.  Returns
    {"counters": {...}, "violations": {...}, "errors": [...], "workers": n, "rc": returncode, "tail": last lines}"""
    base = "/dev/shm" if os.path.isdir("/dev/shm") and os.access("/dev/shm", os.W_OK) else None
    out = tempfile.mkdtemp(prefix="nixmon-layerb-", dir=base)
    # a scratch copy of the working tree is both the import root and the working directory: the doc-example tests read files
    # relative to the repository root and drop files there
    cwd = os.path.join(tempfile.mkdtemp(prefix="nixmon-layerb-cwd-", dir=base), "tree")
    shutil.copytree(env.REPO, cwd, ignore=shutil.ignore_patterns(".git", "__pycache__", "*.pyc", ".pytest_cache"))
    try:
        e = dict(os.environ)
        e[env.GUARD] = "1"
        e["NIXMON_PASSIVE_OUT"] = out
        e["NIXMON_PASSIVE_MONITORS"] = ",".join(monitors)
        e["PYTHONPATH"] = cwd + os.pathsep + env.VERIF + os.pathsep + e.get("PYTHONPATH", "")
        e["PYTHONDONTWRITEBYTECODE"] = "1"
        e["PYTHONHASHSEED"] = "0"
        cmd = [env.PYTHON, "-W", "ignore", "-m", "pytest", "-q", "-p", "no:cacheprovider", "-p", "nixmon.passive.plugin", "-n", str(jobs),
               "--timeout=900", "--continue-on-collection-errors", "--rootdir", cwd, select or os.path.join(cwd, "nixio", "test")]
        try:
            p = subprocess.run(cmd, cwd=cwd, env=e, capture_output=True, text=True, timeout=timeout)
            rc, tail = p.returncode, (p.stdout + p.stderr)[-1500:]
        except subprocess.TimeoutExpired:
            rc, tail = "timeout", ""
        merged = {"counters": {}, "violations": {}, "errors": [], "workers": 0, "rc": rc, "tail": tail, "nixio_file": None}
        for fn in glob.glob(os.path.join(out, "*.json")):
            with open(fn) as fh:
                st = json.load(fh)
            if not st["counters"]:
                continue
            merged["workers"] += 1
            merged["nixio_file"] = st.get("nixio_file") or merged["nixio_file"]
            for k, v in st["counters"].items():
                merged["counters"][k] = merged["counters"].get(k, 0) + v
            for k, v in st["violations"].items():
                t = merged["violations"].setdefault(k, {"count": 0, "witnesses": []})
                t["count"] += v["count"]
                t["witnesses"].extend(v["witnesses"][:max(0, 3 - len(t["witnesses"]))])
            merged["errors"].extend(st["errors"][:5])
        return merged
    finally:
        shutil.rmtree(out, True)
        shutil.rmtree(os.path.dirname(cwd), True)
