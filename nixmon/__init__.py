"""nixmon: runtime monitors for G-Node/nixpy (see /verif/DESIGN.md)."""
