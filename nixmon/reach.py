"""Reach of a workload inside the library under test (evidence, not a verdict).

Every shard records, through sys.monitoring (tool COVERAGE_ID, LINE events, each location disabled after its first
hit, so the cost is one callback per distinct line), which lines of <repo>/nixio it executed.  The parent merges the
shards and summarises, for the files a property is anchored in (properties.jsonl: anchors.files), how many of the
executable lines and which functions the monitored executions actually entered.  A function whose body was never
entered is code about which the run says nothing - the list is printed in the evidence so that "held on what was
observed" can be read against what was *not* observed.  Child processes a check starts itself (the killed writers of
C17, the SIGKILL variant of C18) are not traced.
"""
import ast
import json
import os
import sys

_lines = {}
_root = None
_on = False


def start(repo):
    """Begin recording executed lines of <repo>/nixio in this process."""
    global _root, _on
    mon = getattr(sys, "monitoring", None)
    if mon is None or _on:
        return False
    _root = os.path.join(os.path.realpath(repo), "nixio") + os.sep
    try:
        mon.use_tool_id(mon.COVERAGE_ID, "nixmon-reach")
    except ValueError:
        return False
    cache = {}

    def on_line(code, line):
        fn = code.co_filename
        rel = cache.get(fn)
        if rel is None:
            real = os.path.realpath(fn)
            rel = cache[fn] = ("nixio/" + real[len(_root):]) if real.startswith(_root) else False
        if rel:
            _lines.setdefault(rel, set()).add(line)
        return mon.DISABLE

    mon.register_callback(mon.COVERAGE_ID, mon.events.LINE, on_line)
    mon.set_events(mon.COVERAGE_ID, mon.events.LINE)
    _on = True
    return True


def dump():
    return {f: sorted(s) for f, s in _lines.items() if "/test/" not in f}


def merge(into, part):
    for f, ls in (part or {}).items():
        into.setdefault(f, set()).update(ls)


def _executable_lines(src, filename):
    out = set()
    todo = [compile(src, filename, "exec")]
    while todo:
        co = todo.pop()
        for _, _, ln in co.co_lines():
            if ln:
                out.add(ln)
        todo.extend(c for c in co.co_consts if hasattr(c, "co_lines"))
    return out


def _functions(tree):
    """[(qualified name, set of body statement lines)] for every def, docstrings excluded."""
    out = []

    def walk(node, prefix):
        for ch in ast.iter_child_nodes(node):
            if isinstance(ch, (ast.FunctionDef, ast.AsyncFunctionDef)):
                body = ch.body
                if body and isinstance(body[0], ast.Expr) and isinstance(getattr(body[0], "value", None), ast.Constant) \
                        and isinstance(body[0].value.value, str):
                    body = body[1:]
                lines = set()
                for st in body:
                    for sub in ast.walk(st):
                        if isinstance(sub, (ast.FunctionDef, ast.AsyncFunctionDef, ast.ClassDef)) and sub is not st:
                            continue
                        if hasattr(sub, "lineno"):
                            lines.add(sub.lineno)
                out.append((prefix + ch.name, lines))
                walk(ch, prefix + ch.name + ".")
            elif isinstance(ch, ast.ClassDef):
                walk(ch, prefix + ch.name + ".")
            else:
                walk(ch, prefix)
    walk(tree, "")
    return out


def anchors_of(verif, prop):
    try:
        with open(os.path.join(verif, "properties.jsonl")) as fh:
            for line in fh:
                p = json.loads(line)
                if p["id"] == prop:
                    return list(p.get("anchors", {}).get("files", []))
    except OSError:
        pass
    return []


def summarise(lines_by_file, repo, files):
    """Per anchored file: executable vs executed lines, functions entered, and the functions never entered."""
    res = {}
    tot_x = tot_e = tot_f = tot_fe = 0
    for rel in files:
        path = os.path.join(repo, rel)
        try:
            src = open(path, encoding="utf-8").read()
            tree = ast.parse(src)
            execu = _executable_lines(src, path)
        except (OSError, SyntaxError):
            continue
        seen = set(lines_by_file.get(rel, ())) & execu
        funcs = _functions(tree)
        missed = sorted(n for n, ls in funcs if ls and not (ls & seen))
        entered = sum(1 for n, ls in funcs if ls and (ls & seen))
        nf = sum(1 for n, ls in funcs if ls)
        res[rel] = {"executable_lines": len(execu), "executed_lines": len(seen), "functions": nf,
                    "functions_entered": entered, "functions_never_entered": missed}
        tot_x += len(execu); tot_e += len(seen); tot_f += nf; tot_fe += entered
    return {"what": "lines / functions of the property's anchored files executed by the monitored shard processes of this run "
                    "(sys.monitoring LINE events; child processes the check starts itself are not traced)",
            "executable_lines": tot_x, "executed_lines": tot_e, "functions": tot_f, "functions_entered": tot_fe,
            "files": res}
