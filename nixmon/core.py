"""Shard-side context: counts what the monitors observed and collects verdicts.

A check module exposes

    ID, LEVEL, RULE, ASSUMPTIONS, TECHNIQUE
    plan(tier, seed)        -> list of JSON-able shard specs
    run_shard(spec, ctx)    -> None   (runs cases, reports through ctx)
    replay(witness, ctx)    -> None   (re-runs one witness)            [optional]
    finish(merged, tier)    -> None   (parent side; may veto "held")   [optional]

Verdicts are three-valued.  ctx.violation() = violated;  a harness error or a
watchdog = inconclusive;  otherwise "held on what was observed".
"""
import hashlib
import json
import os
import random
import sys
import time
import traceback

from . import env

MAX_WITNESSES_PER_MECHANISM = 3
MAX_SAMPLES = 4


def jsonable(v, depth=0):
    """Best-effort conversion of a witness detail into JSON."""
    import numpy as np
    if depth > 6:
        return repr(v)[:200]
    if isinstance(v, dict):
        return {str(k): jsonable(x, depth + 1) for k, x in list(v.items())[:60]}
    if isinstance(v, (list, tuple, set, frozenset)):
        return [jsonable(x, depth + 1) for x in list(v)[:60]]
    if isinstance(v, (str, int, bool, type(None))):
        return v if not isinstance(v, str) else v[:400]
    if isinstance(v, float):
        return v if v == v and abs(v) != float("inf") else repr(v)
    if isinstance(v, np.ndarray):
        return {"nd": str(v.dtype), "shape": list(v.shape), "head": repr(v.ravel()[:12].tolist())}
    if isinstance(v, np.generic):
        return jsonable(v.item(), depth + 1)
    if isinstance(v, bytes):
        return repr(v[:100])
    return repr(v)[:200]


def sig_hash(sig):
    return hashlib.sha1(repr(sig).encode("utf-8", "backslashreplace")).hexdigest()[:12]


class Ctx:
    def __init__(self, prop, tier, seed, shard=0, nshards=1):
        self.prop = prop
        self.tier = tier
        self.seed = seed
        self.shard = shard
        self.nshards = nshards
        self.evaluations = 0
        self.signatures = set()
        self.samples = []
        self.violations = {}     # mechanism -> {"count": n, "witnesses": [...]}
        self.counters = {}
        self.observations = {}   # side channel: reported, not judged
        self.harness_errors = []
        self.t0 = time.time()

    # ---- randomness -------------------------------------------------------
    def rng(self, *salt):
        h = hashlib.sha256(repr((self.seed, self.prop, self.shard) + salt).encode()).digest()
        return random.Random(int.from_bytes(h[:8], "big"))

    # ---- bookkeeping ------------------------------------------------------
    def case(self, sig=None, sample=None, n=1):
        """Record n executed cases; sig: class signature for distinct_nontrivial."""
        self.evaluations += n
        if sig is not None:
            self.signatures.add(sig_hash(sig))
        if sample is not None and len(self.samples) < MAX_SAMPLES:
            self.samples.append(jsonable(sample))

    def count(self, name, n=1):
        self.counters[name] = self.counters.get(name, 0) + n

    def observe(self, name, detail=None):
        o = self.observations.setdefault(name, {"count": 0, "first": None})
        o["count"] += 1
        if o["first"] is None and detail is not None:
            o["first"] = jsonable(detail)

    def violation(self, mechanism, detail, replay=None):
        """mechanism: stable key naming call site / input class / failure shape
        (never a seed or random value).  replay: JSON-able recipe for --replay."""
        v = self.violations.setdefault(mechanism, {"count": 0, "witnesses": []})
        v["count"] += 1
        if len(v["witnesses"]) < MAX_WITNESSES_PER_MECHANISM:
            v["witnesses"].append({"detail": jsonable(detail), "replay": jsonable(replay),
                                   "shard": self.shard, "seed": self.seed})

    def harness_error(self, where, exc):
        self.harness_errors.append({"where": where, "error": "".join(
            traceback.format_exception(type(exc), exc, exc.__traceback__))[-3000:]})

    def guarded(self, where, fn, *a, **kw):
        """Run one case body.  An exception escaping it is a harness error
        (inconclusive) unless the innermost frames are inside the library under
        test, in which case it is reported as an unexpected-exception violation."""
        try:
            return fn(*a, **kw)
        except Exception as exc:  # noqa
            if raised_in_library(exc):
                self.violation("unexpected_exception:%s:%s" % (where, type(exc).__name__),
                               {"where": where, "error": repr(exc)[:300],
                                "trace": short_trace(exc)})
            else:
                self.harness_error(where, exc)
            return None

    def dump(self):
        return {"prop": self.prop, "shard": self.shard, "evaluations": self.evaluations,
                "signatures": sorted(self.signatures), "samples": self.samples,
                "violations": self.violations, "counters": self.counters,
                "observations": self.observations, "harness_errors": self.harness_errors[:5],
                "wall_s": time.time() - self.t0}


def raised_in_library(exc):
    tb = traceback.extract_tb(exc.__traceback__)
    if not tb:
        return False
    repo = os.path.realpath(env.REPO)
    for fr in reversed(tb):
        fn = os.path.realpath(fr.filename)
        if fn.startswith(os.path.join(env.VERIF, "nixmon")):
            return False
        if fn.startswith(repo):
            return True
        # frames in numpy/h5py below a library frame: keep walking outwards
    return False


def short_trace(exc, n=6):
    tb = traceback.extract_tb(exc.__traceback__)
    return ["%s:%d %s" % (os.path.basename(f.filename), f.lineno, f.name) for f in tb[-n:]]


def shard_main(argv):
    """Child entry: python -m nixmon.core <check> <specfile> <outfile>"""
    check_id, specfile, outfile = argv[:3]
    with open(specfile) as fh:
        job = json.load(fh)
    os.environ.setdefault(env.GUARD, "1")
    from . import reach
    if os.environ.get("NIXMON_REACH", "1") != "0":
        reach.start(env.REPO)
    from .checks import load
    mod = load(check_id)
    ctx = Ctx(check_id, job["tier"], job["seed"], job["shard"], job["nshards"])
    try:
        if job.get("replay") is not None:
            mod.replay(job["replay"], ctx)
        else:
            mod.run_shard(job["spec"], ctx)
    except Exception as exc:  # harness bug or library crash outside a guarded case
        if raised_in_library(exc):
            ctx.violation("unexpected_exception:shard:%s" % type(exc).__name__,
                          {"error": repr(exc)[:300], "trace": short_trace(exc)})
        else:
            ctx.harness_error("shard", exc)
    out = ctx.dump()
    out["reach"] = reach.dump()
    try:
        import nixio
        out["nixio_file"] = nixio.__file__
    except Exception:
        out["nixio_file"] = None
    tmp = outfile + ".tmp"
    with open(tmp, "w") as fh:
        json.dump(out, fh)
    os.replace(tmp, outfile)


if __name__ == "__main__":
    shard_main(sys.argv[1:])
