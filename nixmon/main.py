"""Launcher: ./check <ID> [--tier quick|thorough] [--seed N] [--replay FILE] [--jobs N]

exit 0  property held on everything explored (KNOWN-FINDING lines may be printed)
exit 1  at least one violation not listed in known_findings.json
        (one line "VIOLATION property=<id> replay=<path>" per distinct mechanism)
exit 2  inconclusive (a shard timed out / the harness failed / nothing was observed)
"""
import argparse
import hashlib
import json
import os
import re
import subprocess
import sys
import tempfile
import time
from concurrent.futures import ThreadPoolExecutor

from . import env, reach
from .checks import load

EVIDENCE_DIR = os.path.join(env.VERIF, "evidence")
REPLAY_DIR = os.path.join(env.VERIF, "out", "replays")
FINDINGS = os.path.join(env.VERIF, "known_findings.json")


def load_findings():
    try:
        with open(FINDINGS) as fh:
            return json.load(fh)
    except FileNotFoundError:
        return {"open": [], "fixed": []}


def child_env():
    e = dict(os.environ)
    e[env.GUARD] = "1"
    e["PYTHONHASHSEED"] = "0"
    e["NIXPY_REPO"] = env.REPO
    e["PYTHONPATH"] = env.VERIF + os.pathsep + e.get("PYTHONPATH", "")
    e["PYTHONDONTWRITEBYTECODE"] = "1"
    e["OMP_NUM_THREADS"] = "1"
    e["HDF5_USE_FILE_LOCKING"] = "FALSE"
    return e


def run_job(check_id, job, workdir, timeout):
    specfile = os.path.join(workdir, "job%d.json" % job["shard"])
    outfile = os.path.join(workdir, "out%d.json" % job["shard"])
    logfile = os.path.join(workdir, "log%d.txt" % job["shard"])
    with open(specfile, "w") as fh:
        json.dump(job, fh)
    t0 = time.time()
    with open(logfile, "w") as log:
        try:
            p = subprocess.run([env.PYTHON, "-m", "nixmon.core", check_id, specfile, outfile],
                               cwd=env.VERIF, env=child_env(), stdout=log, stderr=subprocess.STDOUT,
                               timeout=timeout)
            rc = p.returncode
        except subprocess.TimeoutExpired:
            rc = "timeout"
    res = None
    if os.path.exists(outfile):
        with open(outfile) as fh:
            res = json.load(fh)
    tail = ""
    try:
        with open(logfile, errors="replace") as fh:
            tail = fh.read()[-1500:]
    except OSError:
        pass
    return {"shard": job["shard"], "rc": rc, "result": res, "wall_s": time.time() - t0, "log_tail": tail}


def merge(results):
    m = {"evaluations": 0, "signatures": set(), "samples": [], "violations": {}, "counters": {},
         "observations": {}, "harness_errors": [], "inconclusive": [], "nixio_file": None, "reach": {}}
    for r in results:
        res = r["result"]
        if res is None:
            m["inconclusive"].append("shard %s: rc=%s %s" % (r["shard"], r["rc"], r["log_tail"][-400:]))
            continue
        if r["rc"] != 0:
            m["inconclusive"].append("shard %s: rc=%s" % (r["shard"], r["rc"]))
        m["nixio_file"] = res.get("nixio_file") or m["nixio_file"]
        m["evaluations"] += res["evaluations"]
        reach.merge(m["reach"], res.get("reach"))
        m["signatures"].update(res["signatures"])
        for s in res["samples"]:
            if len(m["samples"]) < 5:
                m["samples"].append(s)
        for k, v in res["violations"].items():
            t = m["violations"].setdefault(k, {"count": 0, "witnesses": []})
            t["count"] += v["count"]
            t["witnesses"].extend(v["witnesses"][:max(0, 3 - len(t["witnesses"]))])
        for k, v in res["counters"].items():
            m["counters"][k] = m["counters"].get(k, 0) + v
        for k, v in res["observations"].items():
            o = m["observations"].setdefault(k, {"count": 0, "first": v.get("first")})
            o["count"] += v["count"]
        for h in res["harness_errors"]:
            m["harness_errors"].append(h)
    return m


def classify(check_id, violations, findings):
    known, new = [], []
    for mech, v in sorted(violations.items()):
        hit = None
        for ent in findings.get("open", []):
            if ent.get("property") == check_id and re.fullmatch(ent["mechanism"], mech):
                hit = ent
                break
        (known if hit else new).append((mech, v, hit))
    return known, new


def write_replay(check_id, mech, v):
    os.makedirs(REPLAY_DIR, exist_ok=True)
    h = hashlib.sha1(mech.encode()).hexdigest()[:10]
    path = os.path.join(REPLAY_DIR, "%s-%s.json" % (check_id, h))
    with open(path, "w") as fh:
        json.dump({"property": check_id, "mechanism": mech, "count": v["count"],
                   "witnesses": v["witnesses"]}, fh, indent=1)
    return path


def write_evidence(mod, tier, seed, m, wall, known, new, verdict, extra=None):
    os.makedirs(EVIDENCE_DIR, exist_ok=True)
    cov = {"evaluations": int(m["evaluations"]),
           "distinct_nontrivial": len(m["signatures"]),
           "rule": mod.RULE,
           "samples": m["samples"] or ["(no sample recorded)"],
           "counters": dict(sorted(m["counters"].items())),
           "observations_not_judged": m["observations"],
           "known_findings_seen": [{"mechanism": k, "count": v["count"], "what": e["what"]} for k, v, e in known],
           "new_violations": [{"mechanism": k, "count": v["count"]} for k, v, _ in new],
           "inconclusive_reasons": m["inconclusive"][:5] + [h["where"] for h in m["harness_errors"][:5]],
           "verdict": verdict,
           "tree": m["nixio_file"]}
    if getattr(mod, "EXHAUSTIVE", None) and m["counters"].get("exhaustive_grid_complete"):
        cov["exhaustive"] = True
    if extra:
        cov.update(extra)
    if m.get("reach"):
        cov["reach"] = reach.summarise(m["reach"], env.REPO, reach.anchors_of(env.VERIF, mod.ID))
    ev = {"property_id": mod.ID, "tier": tier, "seed": int(seed), "level": mod.LEVEL, "coverage": cov,
          "assumptions": list(mod.ASSUMPTIONS), "wall_s": round(wall, 2), "violations": len(new)}
    path = os.path.join(EVIDENCE_DIR, "%s.json" % mod.ID)
    tmp = path + ".tmp"
    with open(tmp, "w") as fh:
        json.dump(ev, fh, indent=1, sort_keys=True)
    os.replace(tmp, path)
    return path


def main(argv=None):
    ap = argparse.ArgumentParser(prog="check")
    ap.add_argument("check_id")
    ap.add_argument("--tier", default=os.environ.get("VERIF_TIER") or "quick", choices=["quick", "thorough"])
    ap.add_argument("--seed", type=int, default=None)
    ap.add_argument("--replay", default=None)
    ap.add_argument("--jobs", type=int, default=int(os.environ.get("NIXMON_JOBS", "16")))
    ap.add_argument("--no-evidence", action="store_true")
    args = ap.parse_args(argv)
    seed = args.seed
    if seed is None:
        try:
            seed = int(os.environ.get("VERIF_SEED", ""))
        except ValueError:
            seed = env.DEFAULT_SEED
    check_id = args.check_id.upper()
    mod = load(check_id)
    t0 = time.time()
    findings = load_findings()
    base = "/dev/shm" if os.path.isdir("/dev/shm") and os.access("/dev/shm", os.W_OK) else None
    with tempfile.TemporaryDirectory(prefix="nixmon-run-", dir=base) as workdir:
        if args.replay:
            with open(args.replay) as fh:
                rep = json.load(fh)
            jobs = [{"tier": args.tier, "seed": w.get("seed", seed), "shard": i, "nshards": 1,
                     "spec": None, "replay": w.get("replay") or w.get("detail")}
                    for i, w in enumerate(rep["witnesses"][:1])]
            timeout = 1800
        else:
            specs = mod.plan(args.tier, seed)
            jobs = [{"tier": args.tier, "seed": seed, "shard": i, "nshards": len(specs), "spec": s, "replay": None}
                    for i, s in enumerate(specs)]
            timeout = getattr(mod, "TIMEOUT", {}).get(args.tier, 1500 if args.tier == "quick" else 7200)
        e = child_env()
        e["NIXMON_SCRATCH"] = workdir
        os.environ.update({"NIXMON_SCRATCH": workdir})
        with ThreadPoolExecutor(max_workers=max(1, args.jobs)) as ex:
            results = list(ex.map(lambda j: run_job(check_id, j, workdir, timeout), jobs))
        m = merge(results)
        layer_b = None
        want_b = getattr(mod, "LAYER_B", None) and not args.replay and (args.tier == "thorough" or os.environ.get("NIXMON_LAYER_B") == "1")
        if want_b:
            # Layer B: the same oracles attached to the real functions while the repository's own tests run (DESIGN.md 1.5 / 9.6)
            from . import passive
            try:
                r = passive.run_repo_suite(list(mod.LAYER_B), jobs=max(1, args.jobs))
            except Exception as exc:
                r = {"counters": {}, "violations": {}, "errors": [repr(exc)], "workers": 0, "rc": "harness", "tail": ""}
            for k, v in r["counters"].items():
                m["counters"]["layerB:" + k] = v
            for k, v in r["violations"].items():
                t = m["violations"].setdefault("layerB:" + k, {"count": 0, "witnesses": []})
                t["count"] += v["count"]
                t["witnesses"].extend(v["witnesses"][:3])
            judged = sum(v for k, v in r["counters"].items() if k.endswith("judged"))
            layer_b = {"monitors": list(mod.LAYER_B), "workload": "the repository's own test-suite (nixio/test) on a scratch copy of the working tree",
                       "pytest_workers_reporting": r["workers"], "calls_judged": judged, "monitor_errors": r["errors"][:5],
                       "tests_passed": r["counters"].get("tests_passed"), "tests_failed": r["counters"].get("tests_failed")}
            if not r["workers"] or not judged:
                m["inconclusive"].append("Layer B observed nothing (rc=%s): %s" % (r["rc"], r["tail"][-300:]))
            if r["errors"]:
                m["inconclusive"].append("Layer B monitor errors: %s" % r["errors"][:2])
        if hasattr(mod, "finish") and not args.replay:
            try:
                mod.finish(m, args.tier)
            except Exception as exc:
                m["inconclusive"].append("finish(): %r" % (exc,))
    known, new = classify(check_id, m["violations"], findings)
    wall = time.time() - t0
    seen_entries = {}
    for mech, v, ent in known:
        e = seen_entries.setdefault(id(ent), [ent, [], 0])
        e[1].append(mech)
        e[2] += v["count"]
    for ent, mechs, n in seen_entries.values():
        print("KNOWN-FINDING: property=%s %s [mechanisms seen: %s; %d times]" % (check_id, ent["what"], ", ".join(mechs[:6]), n))
    for mech, v, _ in new:
        path = write_replay(check_id, mech, v)
        print("VIOLATION property=%s replay=%s" % (check_id, path))
        w = v["witnesses"][0]["detail"] if v["witnesses"] else None
        print("  mechanism=%s count=%d first=%s" % (mech, v["count"], json.dumps(w)[:600]))
    inconclusive = bool(m["inconclusive"] or m["harness_errors"])
    if not args.replay and (m["evaluations"] == 0 or len(m["signatures"]) < 2):
        inconclusive = True
        m["inconclusive"].append("nothing observed (evaluations=%d, distinct=%d)" % (m["evaluations"], len(m["signatures"])))
    verdict = "violated" if new else ("inconclusive" if inconclusive else "held_on_observed")
    if not args.replay and not args.no_evidence:
        write_evidence(mod, args.tier, seed, m, wall, known, new, verdict, extra={"layer_b": layer_b} if layer_b else None)
    print("%s tier=%s seed=%d evaluations=%d distinct=%d known=%d new=%d wall=%.1fs verdict=%s" % (
        check_id, args.tier, seed, m["evaluations"], len(m["signatures"]), len(known), len(new), wall, verdict))
    if new:
        return 1
    if inconclusive:
        for r in m["inconclusive"][:5]:
            print("INCONCLUSIVE property=%s reason=%s" % (check_id, str(r)[:800]))
        for h in m["harness_errors"][:3]:
            print("INCONCLUSIVE property=%s harness-error at %s:\n%s" % (check_id, h["where"], h["error"]))
        return 2
    return 0


if __name__ == "__main__":
    sys.exit(main())
