"""Logical clock: replaces nixio.util.now_int / nixio.util.util.now_int (looked up at call time by every
timestamp writer), so that timestamps are deterministic and a reopen comparison never races a second boundary."""


class Clock:
    def __init__(self, start=1_500_000_000, step=1):
        self.t = start
        self.step = step
        self.frozen = False

    def now(self):
        if not self.frozen:
            self.t += self.step
        return self.t


def install(clock=None):
    import nixio.util
    import nixio.util.util
    clock = clock or Clock()
    nixio.util.now_int = clock.now
    nixio.util.util.now_int = clock.now
    return clock
