"""A fixture file containing every entity kind, and a catalogue of public mutating calls with VALID arguments.

Used by C11 (every mutator must fail in a read-only session), C19 (which
timestamps does a call move) and as the base state for C12's fault injections.
Targets are resolved by fixture names from the live file, so the same catalogue
entry can be executed against any copy of the fixture.
"""
from collections import OrderedDict

import numpy as np


def build_fixture(nix, path, rng=None, extra_steps=0, compression=None):
    """Create the fixture file at `path` and return the open file."""
    f = nix.File.open(path, nix.FileMode.Overwrite) if compression is None else nix.File.open(path, nix.FileMode.Overwrite, compression=compression)
    sec = f.create_section("sec0", "meta")
    sub = sec.create_section("sub", "meta")
    subsub = sub.create_section("subsub", "meta")
    sec1 = f.create_section("sec1", "meta")
    sec1.link = sec
    sec.create_property("ints", [1, 2, 3])
    sec.create_property("floats", [0.5, 2.5])
    sec.create_property("texts", ["a", "ü"])
    sec.create_property("bools", [True, False])
    sub.create_property("p", [7])
    sec.props["ints"].unit = "mV"
    sec.props["floats"].uncertainty = 0.5
    sec.props["texts"].definition = "def"
    for bi in range(2):
        b = f.create_block("blk%d" % bi, "blk")
        b.metadata = sec
        src = b.create_source("src", "src")
        nested = src.create_source("nested", "src")
        nested.create_source("leaf", "src")
        b.create_source("src2", "src")
        src.metadata = sub
        da = b.create_data_array("da_num", "arr", data=np.arange(12.0).reshape(3, 4), label="lbl", unit="mV")
        da.append_sampled_dimension(0.5, label="t", unit="ms", offset=1.0)
        da.append_range_dimension([1.0, 2.0, 3.0, 4.0], label="r", unit="s")
        da.metadata = sub
        da.sources.append(src)
        da.sources.append(nested)
        d1 = b.create_data_array("da_1d", "arr", data=np.array([1.0, 2.0, 4.0, 8.0]))
        d1.append_range_dimension_using_self()
        ds = b.create_data_array("da_set", "arr", data=np.arange(6, dtype=np.int32).reshape(2, 3))
        ds.append_set_dimension(["a", "b"])
        ds.append_set_dimension()
        dl = b.create_data_array("da_linked", "arr", data=np.arange(4.0))
        rd = dl.append_range_dimension()
        rd.link_data_array(da, [0, -1])
        b.create_data_array("da_text", "arr", dtype=nix.DataType.String, data=np.array(["x", "ü", ""], dtype=object))
        dcal = b.create_data_array("da_cal", "arr", data=np.arange(5, dtype=np.int16))
        dcal.polynom_coefficients = [1.0, 2.0]
        dcal.expansion_origin = 0.5
        b.create_data_array("da_empty", "arr", dtype=np.float64, shape=(0, 2))
        df = b.create_data_frame("df", "frame", col_dict=OrderedDict([("n", nix.DataType.Int64), ("txt", str), ("v", nix.DataType.Double)]),
                                 data=[(1, "a", 0.5), (2, "ü", 1.5), (3, "", 2.5)])
        df.units = ["mV", None, "s"]
        df.metadata = sec1
        dfl = b.create_data_array("da_dflink", "arr", data=np.arange(3.0))
        sd = dfl.append_set_dimension()
        sd.link_data_frame(df, 1)
        tg = b.create_tag("tag", "tag", [0.0, 1.0])
        tg.extent = [1.0, 2.0]
        tg.units = ["ms", "s"]
        tg.references.append(da)
        tg.references.append(ds)
        tg.create_feature(d1, nix.LinkType.Untagged)
        tg.create_feature(df, nix.LinkType.Indexed)
        tg.metadata = subsub
        tg.sources.append(nested)
        b.create_tag("tag2", "tag", [1.0])
        pos = b.create_data_array("positions", "arr", data=np.array([[0.0, 1.0], [1.0, 2.0]]))
        ext = b.create_data_array("extents", "arr", data=np.array([[0.5, 1.0], [0.5, 1.0]]))
        mt = b.create_multi_tag("mtag", "mtag", pos, ext)
        mt.references.append(da)
        mt.units = ["ms", "s"]
        mt.create_feature(ds, nix.LinkType.Indexed)
        mt.metadata = sec
        mt.sources.append(src)
        b.create_multi_tag("mtag_raw", "mtag", np.array([1.0, 2.0]))
        g = b.create_group("grp", "grp")
        g.data_arrays.append(da)
        g.data_arrays.append(d1)
        g.data_frames.append(df)
        g.tags.append(tg)
        g.multi_tags.append(mt)
        g.sources.append(src)
        g.metadata = sec
        b.create_group("grp_empty", "grp")
    if rng is not None and extra_steps:
        from . import gen
        B = gen.Builder(nix, f, rng, deletes=False)
        for _ in range(extra_steps):
            B.step()
    return f


def targets(nix, f, which=0):
    b = f.blocks["blk%d" % which]
    other = f.blocks["blk%d" % (1 - which)]
    return {"f": f, "b": b, "other": other, "da": b.data_arrays["da_num"], "d1": b.data_arrays["da_1d"], "ds": b.data_arrays["da_set"],
            "dl": b.data_arrays["da_linked"], "dtext": b.data_arrays["da_text"], "dcal": b.data_arrays["da_cal"],
            "dempty": b.data_arrays["da_empty"], "ddf": b.data_arrays["da_dflink"],
            "df": b.data_frames["df"], "tag": b.tags["tag"], "tag2": b.tags["tag2"], "mtag": b.multi_tags["mtag"],
            "mtag_raw": b.multi_tags["mtag_raw"], "grp": b.groups["grp"], "grp_empty": b.groups["grp_empty"],
            "src": b.sources["src"], "nested": b.sources["src"].sources["nested"], "src2": b.sources["src2"],
            "sec": f.sections["sec0"], "sub": f.sections["sec0"].sections["sub"], "sec1": f.sections["sec1"],
            "p_int": f.sections["sec0"].props["ints"], "p_float": f.sections["sec0"].props["floats"],
            "p_text": f.sections["sec0"].props["texts"], "p_bool": f.sections["sec0"].props["bools"],
            "pos": b.data_arrays["positions"], "ext": b.data_arrays["extents"]}


def mutators(nix):
    """List of (label, entity kind, member, fn(T)) - every fn performs a valid mutation on targets T."""
    LT = nix.LinkType
    M = []

    def add(kind, member, fn, label=None):
        M.append((label or "%s.%s" % (kind, member), kind, member, fn))

    # ---- File
    add("File", "create_block", lambda T: T["f"].create_block("newblk", "t"))
    add("File", "create_section", lambda T: T["f"].create_section("newsec", "t"))
    add("File", "blocks.__delitem__", lambda T: T["f"].blocks.__delitem__("blk1"))
    add("File", "sections.__delitem__", lambda T: T["f"].sections.__delitem__("sec1"))
    add("File", "force_created_at", lambda T: T["f"].force_created_at(1234))
    add("File", "force_updated_at", lambda T: T["f"].force_updated_at(1234))
    add("File", "copy_section", lambda T: T["f"].copy_section(T["sub"], name="copied"))
    add("File", "create_block(copy_from)", lambda T: T["f"].create_block(name="blkcopy", copy_from=T["b"]))
    # ---- generic entity attributes
    for key, kind in (("b", "Block"), ("da", "DataArray"), ("df", "DataFrame"), ("tag", "Tag"), ("mtag", "MultiTag"),
                      ("grp", "Group"), ("src", "Source"), ("sec", "Section")):
        add(kind, "type", lambda T, key=key: setattr(T[key], "type", "newtype"))
        add(kind, "definition", lambda T, key=key: setattr(T[key], "definition", "newdef"))
        add(kind, "force_created_at", lambda T, key=key: T[key].force_created_at(1234))
        add(kind, "force_updated_at", lambda T, key=key: T[key].force_updated_at(1234))
        if kind != "Section":
            add(kind, "metadata", lambda T, key=key: setattr(T[key], "metadata", T["sec1"] if key != "df" else T["sec"]))
            add(kind, "metadata.deleter", lambda T, key=key: delattr(T[key], "metadata"))
    # ---- clearing an optional attribute the entity does not have: nothing to remove, but the entity's update time moves
    for key, kind in (("b", "Block"), ("d1", "DataArray"), ("df", "DataFrame"), ("tag2", "Tag"), ("mtag_raw", "MultiTag"),
                      ("grp_empty", "Group"), ("src2", "Source"), ("sec1", "Section")):
        add(kind, "definition", lambda T, key=key: setattr(T[key], "definition", None), label="%s.definition=None(absent)" % kind)
    add("DataArray", "unit", lambda T: setattr(T["d1"], "unit", None), label="DataArray.unit=None(absent)")
    add("DataArray", "label", lambda T: setattr(T["d1"], "label", None), label="DataArray.label=None(absent)")
    add("DataArray", "polynom_coefficients", lambda T: setattr(T["d1"], "polynom_coefficients", None), label="DataArray.polynom_coefficients=None(absent)")
    add("Tag", "extent", lambda T: setattr(T["tag2"], "extent", None), label="Tag.extent=None(absent)")
    add("Tag", "units", lambda T: setattr(T["tag2"], "units", []), label="Tag.units=[](absent)")
    add("MultiTag", "units", lambda T: setattr(T["mtag_raw"], "units", None), label="MultiTag.units=None(absent)")
    add("Section", "repository", lambda T: setattr(T["sec1"], "repository", None), label="Section.repository=None(absent)")
    # ---- Block
    add("Block", "create_data_array", lambda T: T["b"].create_data_array("new", "t", data=[1.0, 2.0]))
    add("Block", "create_data_frame", lambda T: T["b"].create_data_frame("newdf", "t", col_dict=OrderedDict([("a", int)])))
    add("Block", "create_tag", lambda T: T["b"].create_tag("newtag", "t", [1.0]))
    add("Block", "create_multi_tag", lambda T: T["b"].create_multi_tag("newmt", "t", T["pos"]))
    add("Block", "create_group", lambda T: T["b"].create_group("newgrp", "t"))
    add("Block", "create_source", lambda T: T["b"].create_source("newsrc", "t"))
    add("Block", "create_data_array(copy_from)", lambda T: T["b"].create_data_array(name="dacopy", copy_from=T["da"]))
    add("Block", "create_tag(copy_from)", lambda T: T["b"].create_tag(name="tagcopy", copy_from=T["tag"]))
    add("Block", "create_multi_tag(copy_from)", lambda T: T["b"].create_multi_tag(name="mtcopy", copy_from=T["mtag"]))
    add("Block", "create_data_frame(copy_from)", lambda T: T["b"].create_data_frame(name="dfcopy", copy_from=T["df"]))
    for cn, nm in (("data_arrays", "da_empty"), ("data_frames", "df"), ("tags", "tag2"), ("multi_tags", "mtag_raw"), ("groups", "grp_empty"), ("sources", "src2")):
        add("Block", cn + ".__delitem__", lambda T, cn=cn, nm=nm: getattr(T["b"], cn).__delitem__(nm))
    # ---- DataArray
    add("DataArray", "label", lambda T: setattr(T["da"], "label", "newlabel"))
    add("DataArray", "unit", lambda T: setattr(T["da"], "unit", "V"))
    add("DataArray", "expansion_origin", lambda T: setattr(T["da"], "expansion_origin", 2.0))
    add("DataArray", "polynom_coefficients", lambda T: setattr(T["da"], "polynom_coefficients", [0.5, 3.0]))
    add("DataArray", "__setitem__(whole)", lambda T: T["da"].__setitem__(Ellipsis, np.ones(T["da"].shape)))
    add("DataArray", "__setitem__(element)", lambda T: T["da"].__setitem__((1, 2), 99.0))
    add("DataArray", "write_direct", lambda T: T["da"].write_direct(np.zeros(T["da"].shape)))
    add("DataArray", "append", lambda T: T["da"].append(np.ones((1, 4)), axis=0))
    add("DataArray", "data_extent", lambda T: setattr(T["da"], "data_extent", (2, 4)))
    add("DataArray", "append_set_dimension", lambda T: T["d1"].append_set_dimension(["a"]))
    add("DataArray", "append_sampled_dimension", lambda T: T["d1"].append_sampled_dimension(1.0))
    add("DataArray", "append_range_dimension", lambda T: T["d1"].append_range_dimension([1.0, 2.0]))
    add("DataArray", "append_range_dimension_using_self", lambda T: T["d1"].append_range_dimension_using_self())
    add("DataArray", "delete_dimensions", lambda T: T["da"].delete_dimensions())
    add("DataArray", "sources.append", lambda T: T["da"].sources.append(T["src2"]))
    add("DataArray", "sources.extend", lambda T: T["da"].sources.extend([T["src2"]]))
    add("DataArray", "sources.__delitem__", lambda T: T["da"].sources.__delitem__(0))
    add("DataView", "__setitem__", lambda T: T["da"].get_slice([0, 0], [2, 2]).__setitem__((0, 0), 55.0))
    add("DataView", "write_direct", lambda T: T["da"].get_slice([0, 0], [2, 2]).write_direct(np.zeros((2, 2))))
    # ---- dimensions
    add("SampledDimension", "label", lambda T: setattr(T["da"].dimensions[0], "label", "new"))
    add("SampledDimension", "unit", lambda T: setattr(T["da"].dimensions[0], "unit", "s"))
    add("SampledDimension", "offset", lambda T: setattr(T["da"].dimensions[0], "offset", 3.0))
    add("SampledDimension", "sampling_interval", lambda T: setattr(T["da"].dimensions[0], "sampling_interval", 2.0))
    add("RangeDimension", "label", lambda T: setattr(T["da"].dimensions[1], "label", "new"))
    add("RangeDimension", "unit", lambda T: setattr(T["da"].dimensions[1], "unit", "ms"))
    add("RangeDimension", "ticks", lambda T: setattr(T["da"].dimensions[1], "ticks", [5.0, 6.0, 7.0, 8.0]))
    add("RangeDimension", "link_data_array", lambda T: T["da"].dimensions[1].link_data_array(T["d1"], [-1]))
    add("RangeDimension", "link_data_frame", lambda T: T["da"].dimensions[1].link_data_frame(T["df"], 2))
    add("RangeDimension", "remove_link", lambda T: T["dl"].dimensions[0].remove_link())
    add("RangeDimension(linked)", "label", lambda T: setattr(T["dl"].dimensions[0], "label", "via link"))
    add("RangeDimension(linked)", "unit", lambda T: setattr(T["dl"].dimensions[0], "unit", "V"))
    add("RangeDimension(linked)", "ticks", lambda T: setattr(T["dl"].dimensions[0], "ticks", [1.0, 2.0, 3.0, 4.0]))
    add("SetDimension", "labels", lambda T: setattr(T["ds"].dimensions[0], "labels", ["x", "y"]))
    add("SetDimension", "label", lambda T: setattr(T["ds"].dimensions[0], "label", "new"))
    add("SetDimension", "link_data_frame", lambda T: T["ds"].dimensions[1].link_data_frame(T["df"], 1))
    add("SetDimension", "link_data_array", lambda T: T["ds"].dimensions[1].link_data_array(T["d1"], [-1]))
    add("SetDimension", "remove_link", lambda T: T["ddf"].dimensions[0].remove_link())
    add("DimensionLink", "index", lambda T: setattr(T["dl"].dimensions[0].dimension_link, "index", [1, -1]))
    # ---- DataFrame
    add("DataFrame", "append_rows", lambda T: T["df"].append_rows([(9, "z", 9.5)]))
    add("DataFrame", "append_column", lambda T: T["df"].append_column([1.0] * len(T["df"]), "newcol", datatype=nix.DataType.Double))
    add("DataFrame", "write_rows", lambda T: T["df"].write_rows([(7, "w", 7.5)], [1]))
    add("DataFrame", "write_column", lambda T: T["df"].write_column(list(range(len(T["df"]))), name="n"))
    add("DataFrame", "__setitem__", lambda T: T["df"].__setitem__(0, (5, "q", 5.5)))
    add("DataFrame", "data_extent", lambda T: setattr(T["df"], "data_extent", (2,)))
    add("DimensionLink", "label", lambda T: setattr(T["dl"].dimensions[0].dimension_link, "label", "dl-label"))
    add("DimensionLink", "unit", lambda T: setattr(T["dl"].dimensions[0].dimension_link, "unit", "A"))
    add("Property", "type", lambda T: setattr(T["p_int"], "type", "ptype"))
    add("DataFrame", "write_cell", lambda T: T["df"].write_cell(42, position=[0, 0]))
    add("DataFrame", "units", lambda T: setattr(T["df"], "units", ["V", "m", "s"]))
    add("DataFrame", "write_direct", lambda T: T["df"].write_direct(T["df"][:]))
    # ---- Tag
    add("Tag", "position", lambda T: setattr(T["tag"], "position", [2.0, 3.0]))
    add("Tag", "extent", lambda T: setattr(T["tag"], "extent", [0.5, 0.5]))
    add("Tag", "units", lambda T: setattr(T["tag"], "units", ["s", "ms"]))
    add("Tag", "references.append", lambda T: T["tag"].references.append(T["d1"]))
    add("Tag", "references.extend", lambda T: T["tag"].references.extend([T["d1"]]))
    add("Tag", "references.__delitem__", lambda T: T["tag"].references.__delitem__(0))
    add("Tag", "create_feature", lambda T: T["tag"].create_feature(T["da"], LT.Tagged))
    add("Tag", "features.__delitem__", lambda T: T["tag"].features.__delitem__(0))
    add("Tag", "sources.append", lambda T: T["tag"].sources.append(T["src2"]))
    add("Tag", "sources.__delitem__", lambda T: T["tag"].sources.__delitem__(0))
    add("Feature", "link_type", lambda T: setattr(T["tag"].features[0], "link_type", LT.Indexed))
    add("Feature", "data", lambda T: setattr(T["tag"].features[0], "data", T["ds"]))
    # ---- MultiTag
    add("MultiTag", "positions", lambda T: setattr(T["mtag"], "positions", T["ext"]))
    add("MultiTag", "extents", lambda T: setattr(T["mtag"], "extents", T["pos"]))
    add("MultiTag", "extents=None", lambda T: setattr(T["mtag"], "extents", None))
    add("MultiTag", "units", lambda T: setattr(T["mtag"], "units", ["s", "ms"]))
    add("MultiTag", "references.append", lambda T: T["mtag"].references.append(T["ds"]))
    add("MultiTag", "references.__delitem__", lambda T: T["mtag"].references.__delitem__(0))
    add("MultiTag", "create_feature", lambda T: T["mtag"].create_feature(T["da"], LT.Untagged))
    add("MultiTag", "features.__delitem__", lambda T: T["mtag"].features.__delitem__(0))
    add("MultiTag", "sources.append", lambda T: T["mtag"].sources.append(T["src2"]))
    # ---- Group
    add("Group", "data_arrays.append", lambda T: T["grp"].data_arrays.append(T["ds"]))
    add("Group", "data_arrays.extend", lambda T: T["grp"].data_arrays.extend([T["ds"], T["dl"]]))
    add("Group", "data_arrays.__delitem__", lambda T: T["grp"].data_arrays.__delitem__(0))
    add("Group", "data_frames.append", lambda T: T["grp_empty"].data_frames.append(T["df"]))
    add("Group", "data_frames.__delitem__", lambda T: T["grp"].data_frames.__delitem__(0))
    add("Group", "tags.append", lambda T: T["grp"].tags.append(T["tag2"]))
    add("Group", "tags.__delitem__", lambda T: T["grp"].tags.__delitem__(0))
    add("Group", "multi_tags.append", lambda T: T["grp"].multi_tags.append(T["mtag_raw"]))
    add("Group", "multi_tags.__delitem__", lambda T: T["grp"].multi_tags.__delitem__(0))
    add("Group", "sources.append", lambda T: T["grp"].sources.append(T["src2"]))
    add("Group", "sources.__delitem__", lambda T: T["grp"].sources.__delitem__(0))
    # ---- Source
    add("Source", "create_source", lambda T: T["src"].create_source("newchild", "t"))
    add("Source", "sources.__delitem__", lambda T: T["src"].sources.__delitem__("nested"))
    # ---- Section
    add("Section", "create_section", lambda T: T["sec"].create_section("newsub", "t"))
    add("Section", "create_property", lambda T: T["sec"].create_property("newprop", [1.5]))
    add("Section", "create_property(copy_from)", lambda T: T["sec1"].create_property(copy_from=T["p_int"]))
    add("Section", "props.__delitem__", lambda T: T["sec"].props.__delitem__("bools"))
    add("Section", "sections.__delitem__", lambda T: T["sec"].sections.__delitem__("sub"))
    add("Section", "reference", lambda T: setattr(T["sec"], "reference", "ref"))
    add("Section", "repository", lambda T: setattr(T["sec"], "repository", "repo"))
    add("Section", "link", lambda T: setattr(T["sec"], "link", T["sec1"]))
    add("Section", "__setitem__(new)", lambda T: T["sec"].__setitem__("dictprop", [1, 2]))
    add("Section", "__setitem__(existing)", lambda T: T["sec"].__setitem__("ints", [9]))
    add("Section", "__delitem__", lambda T: T["sec"].__delitem__("ints"))
    add("Section", "copy_section", lambda T: T["sec1"].copy_section(T["sub"], name="copied"))
    # ---- Property
    add("Property", "values", lambda T: setattr(T["p_int"], "values", [5, 6]))
    add("Property", "values=None", lambda T: setattr(T["p_int"], "values", None))
    add("Property", "extend_values", lambda T: T["p_int"].extend_values([8]))
    add("Property", "delete_values", lambda T: T["p_int"].delete_values())
    add("Property", "unit", lambda T: setattr(T["p_float"], "unit", "s"))
    add("Property", "definition", lambda T: setattr(T["p_float"], "definition", "d"))
    add("Property", "uncertainty", lambda T: setattr(T["p_int"], "uncertainty", 0.25))
    add("Property", "reference", lambda T: setattr(T["p_int"], "reference", "r"))
    add("Property", "dependency", lambda T: setattr(T["p_int"], "dependency", "dep"))
    add("Property", "dependency_value", lambda T: setattr(T["p_int"], "dependency_value", "dv"))
    add("Property", "value_origin", lambda T: setattr(T["p_int"], "value_origin", "vo"))
    add("Property", "odml_type", lambda T: setattr(T["p_int"], "odml_type", nix.property.OdmlType.Int))
    add("Property", "force_updated_at", lambda T: T["p_int"].force_updated_at(1234))
    add("Property", "force_created_at", lambda T: T["p_int"].force_created_at(1234))
    return M


MUTATOR_PATTERNS = ("create_", "append", "extend", "delete", "force_", "write", "link_", "remove_", "copy_")


def discover_mutators(nix):
    """Public surface by introspection: {(class name, member)} for properties with setter/deleter and
    methods whose name matches the mutator patterns.  Used to report catalogue gaps."""
    import inspect
    from nixio.container import Container, LinkContainer
    from nixio.source_link_container import SourceLinkContainer
    from nixio.data_view import DataView
    from nixio.dimensions import SampledDimension, RangeDimension, SetDimension, DimensionLink
    from nixio.feature import Feature
    classes = [nix.File, nix.Block, nix.DataArray, nix.DataFrame, nix.Tag, nix.MultiTag, nix.Group, nix.Source, nix.Section,
               nix.Property, Feature, SampledDimension, RangeDimension, SetDimension, DimensionLink, DataView]
    found = set()
    for cls in classes:
        for name, m in inspect.getmembers(cls):
            if name.startswith("_") and name not in ("__setitem__", "__delitem__"):
                continue
            if isinstance(m, property):
                if m.fset is not None:
                    found.add((cls.__name__, name))
                if m.fdel is not None:
                    found.add((cls.__name__, name + ".deleter"))
            elif callable(m) and (name in ("__setitem__", "__delitem__") or any(name.startswith(p) for p in MUTATOR_PATTERNS)):
                if name.startswith("write_to_csv"):
                    continue
                found.add((cls.__name__, name))
    for cls in (Container, LinkContainer, SourceLinkContainer):
        for name in ("__delitem__", "append", "extend"):
            if hasattr(cls, name):
                found.add((cls.__name__, name))
    return found
