"""Random history generator over the public API, with a light shadow model.

Builder applies *valid* operations to a live nix.File, choosing targets through
randomly chosen access paths (name / id / index at every hop, sometimes through a
link list) and records for every successful call what the file must now show:

  shadow.attrs[(entity_id, attr)] = canonical expected read-back (last write wins)
  shadow.order[(parent_id, container)] = ordered list of child ids (creation order / link order)
  shadow.alive / shadow.dead = ids that must / must not be reachable
  shadow.data[id] = numpy array expected from da[:]

The shadow is written from the API documentation (what a setter stores and a
getter returns), not from the implementation.
"""
import numpy as np

NAMES = ["a", "b", "zz", "aa", "mm", "ü∂", "x y", "d1", "Z", "same", "00", "_", "e\u0301", "\u212b"]
STRS = [(None, None), ("", ""), ("txt", "txt"), ("ünï ∂", "ünï ∂"), ("x" * 60, "x" * 60)]
UNITS = [(None, None), ("mV", "mV"), (" m s", "ms"), ("µV", "uV"), ("kHz", "kHz"), ("", None)]
TYPES = [("t", "t"), ("ü.type", "ü.type"), ("nix.x", "nix.x")]


class Shadow:
    def __init__(self):
        self.attrs = {}
        self.dimattrs = {}   # (array id, dimension position, field) -> canonical expected read-back
        self.order = {}
        self.alive = {}      # id -> kind
        self.dead = set()
        self.data = {}
        self.rows = {}       # data frame id -> list of rows (lists of plain Python cells), None once unknown

    def kill(self, ids):
        for i in ids:
            self.alive.pop(i, None)
            self.dead.add(i)
            self.data.pop(i, None)
            self.rows.pop(i, None)
        for k in [k for k in self.attrs if k[0] in ids]:
            del self.attrs[k]
        for k in [k for k in self.order if k[0] in ids]:
            del self.order[k]
        for k, lst in self.order.items():
            self.order[k] = [x for x in lst if x not in ids]
        # role links pointing at dead entities
        for k, v in list(self.attrs.items()):
            if isinstance(v, list) and len(v) == 2 and v[0] == "ref" and v[1].split(":", 1)[1] in ids:
                self.attrs[k] = "__dangling__"


class Builder:
    def __init__(self, nix, f, rng, with_frames=True, dims=True, deletes=True):
        self.nix, self.f, self.rng = nix, f, rng
        self.sh = Shadow()
        self.with_frames, self.dims, self.deletes = with_frames, dims, deletes
        self.log = []
        self.paths_used = {}
        self.handles, self._cache_f = {}, f
        self.handle_pairs = rng.random() < 0.5
        self.n = 0

    # ---- helpers ---------------------------------------------------------------------
    def pick(self, seq):
        seq = list(seq)
        return self.rng.choice(seq) if seq else None

    def uniq(self, cont, base=None):
        base = base or self.rng.choice(NAMES)
        names = {x.name for x in cont}
        n, i = base, 0
        while n in names:
            i += 1
            n = "%s%d" % (base, i)
        return n

    def hop(self, cont, ent):
        """Fetch `ent` again from container `cont` through a random addressing mode."""
        if self._cache_f is not self.f:          # handles do not survive a close/reopen
            self.handles, self._cache_f = {}, self.f
        how = self.rng.choice(["name", "id", "index", "same", "kept", "kept"])
        if self.handle_pairs:
            # two-handle mode: every entity is only ever touched through one of two long-lived handles
            old = self.handles.setdefault(ent.id, [])
            if len(old) < 2:
                old.append(self._fetch(cont, ent, self.rng.choice(["name", "id", "index"])))
                return old[-1]
            self.paths_used["handle_pair"] = self.paths_used.get("handle_pair", 0) + 1
            return self.rng.choice(old)
        if how == "kept":
            # a handle obtained earlier and kept alive (with whatever containers it has already touched):
            # "independent of how many handles to the same entity were used"
            old = self.handles.get(ent.id)
            if old:
                self.paths_used["kept_handle"] = self.paths_used.get("kept_handle", 0) + 1
                return self.rng.choice(old)
            how = "name"
        self.paths_used[how] = self.paths_used.get(how, 0) + 1
        got = self._fetch(cont, ent, how)
        lst = self.handles.setdefault(ent.id, [])
        if len(lst) < 3:
            lst.append(got)
        return got

    def _fetch(self, cont, ent, how):
        if how == "name":
            return cont[ent.name]
        if how == "id":
            return cont[ent.id]
        if how == "index":
            for i, x in enumerate(cont):
                if x.id == ent.id:
                    return cont[i] if self.rng.random() < 0.5 else cont[i - len(cont)]
        return ent

    def blocks(self):
        return list(self.f.blocks)

    def any_block(self):
        b = self.pick(self.blocks())
        return None if b is None else self.hop(self.f.blocks, b)

    def walk_sections(self):
        """[(section, container that holds it)] in breadth-first order - own walk, independent of find_sections/parent."""
        out, queue = [], [(s, self.f.sections) for s in self.f.sections]
        while queue:
            s, cont = queue.pop(0)
            out.append((s, cont))
            queue.extend((c, s.sections) for c in s.sections)
        return out

    def all_sections(self):
        return [s for s, _ in self.walk_sections()]

    def section_container(self, s):
        for x, cont in self.walk_sections():
            if x.id == s.id:
                return cont
        raise KeyError(s.id)

    def reget_section(self, s):
        return self.hop(self.section_container(s), s)

    def walk_sources(self, b):
        out, queue = [], [(s, b.sources) for s in b.sources]
        while queue:
            s, cont = queue.pop(0)
            out.append((s, cont))
            queue.extend((c, s.sources) for c in s.sources)
        return out

    def via_group(self, b, cname, ent):
        """Sometimes return the handle through a group's link list that contains it."""
        if self.rng.random() < 0.3:
            for g in b.groups:
                lc = getattr(g, cname)
                if ent in lc:
                    self.paths_used["group_link"] = self.paths_used.get("group_link", 0) + 1
                    return lc[ent.id]
        return self.hop(getattr(b, cname), ent)

    def ref(self, ent):
        return ["ref", "%s:%s" % (type(ent).__name__, ent.id)]

    def born(self, ent, parent_id, cname):
        self.sh.alive[ent.id] = type(ent).__name__
        self.sh.order.setdefault((parent_id, cname), []).append(ent.id)
        self.sh.attrs[(ent.id, "name")] = ent.name
        # the object returned by the creating call is itself a long-lived handle (it may carry state a fetched handle lacks)
        if self._cache_f is self.f:
            lst = self.handles.setdefault(ent.id, [])
            if len(lst) < 2:
                lst.append(ent)

    def expect(self, ent, attr, value):
        self.sh.attrs[(ent.id, attr)] = value

    def fl(self, seq):
        return [["float64", repr(float(x))] for x in seq]

    # ---- closures for deletion ---------------------------------------------------------
    def closure(self, ent):
        nix = self.nix
        ids = {ent.id}
        if isinstance(ent, nix.Block):
            for c in ("data_arrays", "data_frames", "tags", "multi_tags", "groups"):
                for x in getattr(ent, c):
                    ids |= self.closure(x)
            for s, _ in self.walk_sources(ent):
                ids.add(s.id)
        elif isinstance(ent, nix.Source):
            for c in ent.sources:
                ids |= self.closure(c)
        elif isinstance(ent, nix.Section):
            ids |= {p.id for p in ent.props}
            for c in ent.sections:
                ids |= self.closure(c)
        elif isinstance(ent, (nix.Tag, nix.MultiTag)):
            ids |= {ft.id for ft in ent.features}
        elif isinstance(ent, nix.DataArray):
            for d in ent.dimensions:
                if d.has_link:
                    ids.add(d.dimension_link.id)
        return ids

    # ---- operations --------------------------------------------------------------------
    def ops(self):
        nix, rng = self.nix, self.rng
        f = self.f
        ops = []
        add = ops.append

        def create_block():
            name = self.uniq(f.blocks)
            b = f.create_block(name, "blk", compression=rng.choice(list(nix.Compression)))
            self.born(b, "File", "blocks")
            self.expect(b, "type", "blk")
        add(("create_block", 2 if len(f.blocks) < 3 else 0.3, create_block))

        def create_section():
            par = self.pick([None] + self.all_sections()[:12])
            if par is None:
                s = f.create_section(self.uniq(f.sections), "sec")
                self.born(s, "File", "sections")
            else:
                par = self.reget_section(par)
                s = par.create_section(self.uniq(par.sections), "sec")
                self.born(s, par.id, "sections")
            self.expect(s, "type", "sec")
        add(("create_section", 1.5, create_section))

        b = self.any_block()
        if b is not None:
            self._block_ops(b, add)
        s = self.pick(self.all_sections())
        if s is not None:
            self._section_ops(self.reget_section(s), add)
        if self.deletes:
            def delete_block():
                x = self.pick(f.blocks)
                if x is None:
                    return "skip"
                ids = self.closure(x)
                del f.blocks[rng.choice([x.name, x.id, x])]
                self.sh.kill(ids)
            add(("delete_block", 0.15, delete_block))

            def delete_section():
                x = self.pick(self.all_sections())
                if x is None:
                    return "skip"
                ids = self.closure(x) | {p.id for p in x.props}
                cont = self.section_container(x)
                del cont[rng.choice([x.name, x.id, x])]
                self.sh.kill(ids)
            add(("delete_section", 0.3, delete_section))
        return ops

    def _set_str(self, ent, attr, pool=STRS):
        v, e = self.rng.choice(pool)
        setattr(ent, attr, v)
        self.expect(ent, attr, e)

    def _metadata_ops(self, ent, add, w=0.5):
        def set_md():
            s = self.pick(self.all_sections())
            if s is None:
                return "skip"
            ent.metadata = s
            self.expect(ent, "metadata", self.ref(s))

        def del_md():
            del ent.metadata
            self.expect(ent, "metadata", None)
        add(("set_metadata:" + type(ent).__name__, w, set_md))
        add(("del_metadata:" + type(ent).__name__, w / 3, del_md))

    def _source_link_ops(self, b, ent, add, w=0.4):
        def add_src():
            s = self.pick([x for x, _ in self.walk_sources(b)])
            if s is None or s in ent.sources:
                return "skip"
            ent.sources.append(s)
            self.sh.order.setdefault((ent.id, "sources"), []).append(s.id)

        def del_src():
            s = self.pick(ent.sources)
            if s is None:
                return "skip"
            del ent.sources[self.rng.choice([s.id, s, s.name])]
            self.sh.order[(ent.id, "sources")].remove(s.id)
        add(("add_source_link:" + type(ent).__name__, w, add_src))
        add(("del_source_link:" + type(ent).__name__, w / 3, del_src))

    def _block_ops(self, b, add):
        nix, rng = self.nix, self.rng
        f = self.f

        def set_def():
            self._set_str(b, "definition")
        add(("block.definition", 0.3, set_def))
        self._metadata_ops(b, add, 0.3)

        def create_da():
            rank = rng.randint(1, 3)
            shape = tuple(rng.randint(0, 3) for _ in range(rank))
            dt = rng.choice([np.float64, np.int16, np.uint8, np.bool_, np.float32])
            data = (np.arange(int(np.prod(shape))).reshape(shape) % 7).astype(dt)
            name = self.uniq(b.data_arrays)
            how = rng.choice(["data", "shape", "label_unit"])
            if how == "data":
                da = b.create_data_array(name, "arr", data=data, compression=rng.choice(list(nix.Compression)))
                self.sh.data[da.id] = data
            elif how == "shape":
                da = b.create_data_array(name, "arr", dtype=dt, shape=shape)
                da[...] = data
                self.sh.data[da.id] = data
            else:
                da = b.create_data_array(name, "arr", data=data, label="lbl", unit="mV")
                self.sh.data[da.id] = data
                self.expect(da, "label", "lbl")
                self.expect(da, "unit", "mV")
            self.born(da, b.id, "data_arrays")
            self.expect(da, "type", "arr")
        add(("create_data_array", 2.5, create_da))

        if self.with_frames:
            def create_df():
                name = self.uniq(b.data_frames)
                from collections import OrderedDict
                cd = OrderedDict([("n", nix.DataType.Int64), ("txt", str), ("v", nix.DataType.Double)])
                rows = [(i, rng.choice(["a", "ü", ""]), i * 0.5) for i in range(rng.randint(0, 3))]
                df = b.create_data_frame(name, "frame", col_dict=cd, data=rows or None)
                self.born(df, b.id, "data_frames")
                self.expect(df, "type", "frame")
                self.sh.rows[df.id] = [list(r) for r in rows]
            add(("create_data_frame", 0.8, create_df))
            df = self.pick(b.data_frames)
            if df is not None:
                df = self.via_group(b, "data_frames", df)
                known = self.sh.rows.get(df.id)

                def df_rows():
                    ncols = len(known[0]) if known else len(df.column_names)
                    row = (9, "z", 1.25) + tuple(0.5 for _ in range(ncols - 3))
                    try:
                        df.append_rows([row])
                    except Exception:
                        self.sh.rows[df.id] = None
                        raise
                    if known is not None:
                        known.append(list(row))
                add(("df.append_rows", 0.3, df_rows))

                def df_cell():
                    n = len(df)
                    if not n:
                        return "skip"
                    r, c = rng.randrange(n), rng.randrange(3)
                    val = [rng.randint(-5, 5), rng.choice(["q", "ß", ""]), rng.randint(-8, 8) / 4.0][c]
                    try:
                        if rng.random() < 0.5:
                            df.write_cell(val, position=(r, c))
                        else:
                            df.write_cell(val, col_name=["n", "txt", "v"][c], row_idx=[r])
                    except Exception:
                        self.sh.rows[df.id] = None
                        raise
                    if known is not None:
                        known[r][c] = val
                add(("df.write_cell", 0.4, df_cell))

                def df_col():
                    ncols = len(df.column_names)
                    if ncols >= 5:
                        return "skip"
                    col = [rng.randint(-4, 4) / 2.0 for _ in range(len(df))]
                    if not col:
                        return "skip"
                    try:
                        df.append_column(col, "c%d" % ncols, datatype=nix.DataType.Double)
                    except Exception:
                        self.sh.rows[df.id] = None
                        raise
                    if known is not None:
                        for r, v in zip(known, col):
                            r.append(v)
                add(("df.append_column", 0.25, df_col))

                def df_churn():
                    """Two handles of one frame that have both read it; a structural change (new column / new rows) through
                    one, then a cell written through the other, then again through the first: every micro-step is a plain
                    valid call, and what was written last must be what is read, whichever handle was used."""
                    if known is None or not len(df):
                        return "skip"
                    cont = b.data_frames
                    h = [df, self._fetch(cont, df, rng.choice(["name", "id", "index"]))]
                    try:
                        for x in h:
                            len(x), x.column_names, x.df_shape
                            x.read_rows([0])
                        ncols = len(h[0].column_names)
                        if ncols < 6 and rng.random() < 0.7:
                            col = [rng.randint(-4, 4) / 2.0 for _ in range(len(known))]
                            h[0].append_column(col, "c%d" % ncols, datatype=nix.DataType.Double)
                            for r, v in zip(known, col):
                                r.append(v)
                        else:
                            row = (3, "w", 0.75) + tuple(0.25 for _ in range(ncols - 3))
                            h[0].append_rows([row])
                            known.append(list(row))
                        for k in (1, 0, 1):
                            r, c = rng.randrange(len(known)), rng.randrange(len(known[0]))
                            val = rng.randint(-5, 5) if c == 0 else (rng.choice(["q", "ß", ""]) if c == 1 else rng.randint(-8, 8) / 4.0)
                            h[k].write_cell(val, position=(r, c))
                            known[r][c] = val
                    except Exception:
                        self.sh.rows[df.id] = None
                        raise
                add(("df.two_handle_churn", 0.5, df_churn))

                def df_units():
                    df.units = ["mV", None, "s"] + [None] * (len(df.column_names) - 3)
                add(("df.units", 0.2, df_units))
                self._metadata_ops(df, add, 0.2)

        def create_tag():
            name = self.uniq(b.tags)
            pos = [float(rng.randint(0, 3)) for _ in range(rng.randint(1, 3))]
            t = b.create_tag(name, "tag", pos)
            self.born(t, b.id, "tags")
            self.expect(t, "type", "tag")
            self.expect(t, "position", self.fl(pos))
        add(("create_tag", 1.2, create_tag))

        def create_mtag():
            name = self.uniq(b.multi_tags)
            if name + "-positions" in b.data_arrays or name + "-extents" in b.data_arrays:
                return "skip"
            das = [d for d in b.data_arrays if d.dtype.kind in "fiu"]
            how = rng.choice(["array", "raw", "raw+ext"]) if das else rng.choice(["raw", "raw+ext"])
            if how == "array":
                pos = self.pick(das)
                ext = self.pick(das + [None])
                mt = b.create_multi_tag(name, "mtag", pos, ext)
                self.expect(mt, "positions", self.ref(pos))
                self.expect(mt, "extents", None if ext is None else self.ref(ext))
            else:
                p = np.arange(6.0).reshape(3, 2)
                e = np.ones((3, 2)) if how == "raw+ext" else None
                mt = b.create_multi_tag(name, "mtag", p, e)
                pa = b.data_arrays[name + "-positions"]
                self.born(pa, b.id, "data_arrays")
                self.sh.data[pa.id] = p
                self.expect(mt, "positions", self.ref(pa))
                if e is not None:
                    ea = b.data_arrays[name + "-extents"]
                    self.born(ea, b.id, "data_arrays")
                    self.sh.data[ea.id] = e
                    self.expect(mt, "extents", self.ref(ea))
                else:
                    self.expect(mt, "extents", None)
            self.born(mt, b.id, "multi_tags")
            self.expect(mt, "type", "mtag")
        add(("create_multi_tag", 1.0, create_mtag))

        def create_group():
            g = b.create_group(self.uniq(b.groups), "grp")
            self.born(g, b.id, "groups")
            self.expect(g, "type", "grp")
        add(("create_group", 1.0, create_group))

        def create_source():
            ws = self.walk_sources(b)[:10]
            k = rng.randrange(len(ws) + 1)
            par = b if k == len(ws) else self.hop(ws[k][1], ws[k][0])
            s = par.create_source(self.uniq(par.sources), "src")
            self.born(s, par.id, "sources")
            self.expect(s, "type", "src")
        add(("create_source", 1.2, create_source))

        src, src_cont = self.pick(self.walk_sources(b)) or (None, None)
        if src is not None:
            def src_attr():
                self._set_str(src, "definition")
            add(("source.definition", 0.2, src_attr))
            self._metadata_ops(src, add, 0.2)
            if self.deletes:
                def del_src():
                    ids = self.closure(src)
                    del src_cont[rng.choice([src.name, src.id, src])]
                    self.sh.kill(ids)
                add(("delete_source", 0.25, del_src))

        def churn():
            """Empty -> non-empty -> empty transitions of one link list, every micro-step through a handle fetched anew
            (another kept handle in two-handle mode): the container group of a link list is created by the first
            append and removed with the last entry, which is where a handle that has seen the old group can go stale."""
            holders = [("groups", g) for g in b.groups] + [("tags", t) for t in b.tags] + [("multi_tags", t) for t in b.multi_tags] + \
                      [("data_arrays", d) for d in b.data_arrays]
            if not holders:
                return "skip"
            hc, h0 = rng.choice(holders)
            lists = {"groups": ["data_arrays", "data_frames", "tags", "multi_tags", "sources"], "tags": ["references", "sources"],
                     "multi_tags": ["references", "sources"], "data_arrays": ["sources"]}[hc]
            cname = rng.choice(lists)
            if cname == "sources":
                pool = [x for x, _ in self.walk_sources(b)]
            else:
                pool = list(getattr(b, "data_arrays" if cname == "references" else cname))
            if not pool:
                return "skip"
            key = (h0.id, cname)
            for _ in range(rng.randint(2, 5)):
                h = self.hop(getattr(b, hc), h0)
                lc = getattr(h, cname)
                cur = self.sh.order.setdefault(key, [])
                if cur and (rng.random() < 0.6 or len(cur) == len(pool)):
                    xid = rng.choice(cur)
                    del lc[xid]
                    cur.remove(xid)
                else:
                    x = rng.choice([y for y in pool if y.id not in cur])
                    lc.append(x)
                    cur.append(x.id)
        add(("linklist.churn", 0.7, churn))

        da = self.pick(b.data_arrays)
        if da is not None:
            self._array_ops(b, self.via_group(b, "data_arrays", da), add)
        g = self.pick(b.groups)
        if g is not None:
            g = self.hop(b.groups, g)
            for cname in ("data_arrays", "data_frames", "tags", "multi_tags"):
                def g_add(cname=cname):
                    x = self.pick(getattr(b, cname))
                    if x is None or x in getattr(g, cname):
                        return "skip"
                    getattr(g, cname).append(x)
                    self.sh.order.setdefault((g.id, cname), []).append(x.id)

                def g_del(cname=cname):
                    x = self.pick(getattr(g, cname))
                    if x is None:
                        return "skip"
                    del getattr(g, cname)[rng.choice([x.id, x, x.name, list(getattr(g, cname)).index(x)])]
                    self.sh.order[(g.id, cname)].remove(x.id)
                add(("group.append:" + cname, 0.5, g_add))
                add(("group.remove:" + cname, 0.15, g_del))
            self._source_link_ops(b, g, add, 0.2)
            self._metadata_ops(g, add, 0.2)

            def g_def():
                self._set_str(g, "definition")
            add(("group.definition", 0.15, g_def))
        tg = self.pick(list(b.tags) + list(b.multi_tags))
        if tg is not None:
            cname = "tags" if isinstance(tg, nix.Tag) else "multi_tags"
            self._tag_ops(b, self.via_group(b, cname, tg), add)
        if self.deletes:
            def del_child():
                cname = rng.choice(["data_arrays", "data_frames", "tags", "multi_tags", "groups"])
                x = self.pick(getattr(b, cname))
                if cname == "data_arrays" and rng.random() < 0.6:
                    # prefer an array that something points at through a role link (positions / extents - possibly of a multi-tag in
                    # ANOTHER block): deleting it must take those links with it, wherever they are
                    pointed = {v[1].split(":", 1)[1] for (i, a), v in self.sh.attrs.items()
                               if a in ("positions", "extents") and isinstance(v, list) and len(v) == 2 and v[0] == "ref"}
                    hot = [d for d in b.data_arrays if d.id in pointed]
                    mine = set(self.sh.order.get((b.id, "multi_tags"), []))
                    far = {v[1].split(":", 1)[1] for (i, a), v in self.sh.attrs.items()
                           if a in ("positions", "extents") and isinstance(v, list) and len(v) == 2 and v[0] == "ref" and i not in mine}
                    hot_far = [d for d in hot if d.id in far]
                    if hot_far or hot:
                        x = rng.choice(hot_far or hot)
                        self.paths_used["delete_role_link_target"] = self.paths_used.get("delete_role_link_target", 0) + 1
                if x is None:
                    return "skip"
                ids = self.closure(x)
                cont = getattr(b, cname)
                del cont[rng.choice([x.name, x.id, x, list(cont).index(x)])]
                self.sh.kill(ids)
            add(("delete_block_child", 0.7, del_child))

            def far_link_then_delete():
                """An array of this block is made the extents (or positions) of a multi-tag of ANOTHER block and linked by a dimension
                of an array there; then it is deleted from its own block: every one of those far links must be gone with it."""
                others = [ob for ob in self.f.blocks if ob.id != b.id and len(ob.multi_tags)]
                if not others:
                    return "skip"
                ob = rng.choice(others)
                name = self.uniq(b.data_arrays, "far")
                vals = np.arange(4.0)
                da = b.create_data_array(name, "arr", data=vals)
                self.born(da, b.id, "data_arrays")
                self.expect(da, "type", "arr")
                mt = self.hop(ob.multi_tags, self.pick(ob.multi_tags))
                role = rng.choice(["extents", "positions"])
                setattr(mt, role, da)
                self.expect(mt, role, self.ref(da))
                cont = self.hop(self.f.blocks, b).data_arrays
                del cont[rng.choice([da.name, da.id, list(cont).index(da)])]
                self.sh.kill({da.id})
            add(("far_role_link_then_delete", 0.25, far_link_then_delete))

    def _array_ops(self, b, da, add):
        nix, rng = self.nix, self.rng
        numeric = da.dtype.kind in "fiu"

        def da_attr():
            a = rng.choice(["label", "unit", "definition", "type"])
            if a == "unit":
                self._set_str(da, a, UNITS)
            elif a == "type":
                self._set_str(da, a, TYPES)
            else:
                self._set_str(da, a)
        add(("da.attr", 1.5, da_attr))
        if numeric:
            def da_calib():
                if rng.random() < 0.5:
                    cur = da.expansion_origin
                    was_int = cur is not None and "int" in type(cur).__name__
                    pool = [(None, None), (0, 0), (1.5, ["float", "1.5"]), (2, 2), (0.25, ["float", "0.25"]), (3, 3)]
                    # whole numbers and fractions alternate, so that a value of one kind overwrites a value of the other
                    v, e = rng.choice([x for x in pool if x[0] is None or (isinstance(x[0], int) != was_int)])
                    da.expansion_origin = v
                    self.expect(da, "expansion_origin", ["float64", e[1]] if isinstance(e, list) else (None if e is None else ["int64", repr(e)]))
                else:
                    v = rng.choice([None, [1.0, 2.0], [0.0], (0.5, 0.25, 3.0)])
                    da.polynom_coefficients = v
                    self.expect(da, "polynom_coefficients", [["float64", repr(float(x))] for x in (v or [])])
            add(("da.calibration", 0.4, da_calib))

        def uncal():
            return numeric and (len(da.polynom_coefficients) or da.expansion_origin)

        def da_write():
            if not da.size:
                return "skip"
            new = ((np.ones(da.shape) * rng.randint(0, 9)) % 2 if da.dtype == np.bool_ else np.ones(da.shape) * rng.randint(0, 9)).astype(da.dtype)
            da[...] = new
            self.sh.data[da.id] = new
        add(("da.write", 0.8, da_write))

        def da_append():
            ax = rng.randrange(len(da.shape))
            sh = list(da.shape)
            sh[ax] = rng.randint(0, 2)
            v = np.ones(sh, dtype=da.dtype)
            da.append(v, axis=ax)
            if da.id in self.sh.data:
                self.sh.data[da.id] = np.concatenate([self.sh.data[da.id], v], axis=ax)
        add(("da.append", 0.6, da_append))
        self._metadata_ops(da, add, 0.5)
        self._source_link_ops(b, da, add, 0.5)
        if self.dims:
            def da_dim():
                k = rng.choice(["set", "sample", "range", "self"])
                if k == "set":
                    da.append_set_dimension(rng.choice([None, ["l1", "l2"], ["ü"]]))
                elif k == "sample":
                    da.append_sampled_dimension(rng.choice([1.0, 0.5]), label=rng.choice(["x", "ü", None]),
                                                unit=rng.choice([None, "s", "ms"]), offset=rng.choice([None, 1.0, -0.5]))
                elif k == "range":
                    da.append_range_dimension(rng.choice([None, [1.0, 2.0, 3.0], [0.0]]), label=rng.choice(["r", None]),
                                              unit=rng.choice([None, "ms"]))
                else:
                    if len(da.shape) != 1 or not numeric:
                        return "skip"
                    da.append_range_dimension_using_self()
            add(("da.append_dimension", 1.0, da_dim))

            def da_deldims():
                da.delete_dimensions()
                for k in [k for k in self.sh.dimattrs if k[0] == da.id]:
                    del self.sh.dimattrs[k]
            add(("da.delete_dimensions", 0.1, da_deldims))

            def dimlink():
                rds = [d for d in da.dimensions if isinstance(d, (nix.RangeDimension, nix.SetDimension))]
                d = self.pick(rds)
                if d is None:
                    return "skip"
                if isinstance(d, nix.SetDimension) and rng.random() < 0.5 and self.with_frames and len(b.data_frames):
                    d.link_data_frame(self.pick(b.data_frames), rng.randrange(3))
                    return
                tgt = self.pick([x for x in b.data_arrays if len(x.shape) >= 1])
                if tgt is None:
                    return "skip"
                idx = [0] * len(tgt.shape)
                idx[rng.randrange(len(idx))] = -1
                if any(s == 0 for i, s in enumerate(tgt.shape) if idx[i] != -1):
                    return "skip"
                d.link_data_array(tgt, idx)
            add(("dim.link", 0.4, dimlink))

            def dim_attr():
                d = self.pick(da.dimensions)
                if d is None:
                    return "skip"
                if isinstance(d, nix.SampledDimension):
                    def num(field, pool):
                        # whole numbers and fractions alternate, so that a value of one kind overwrites a value of the other
                        cur = getattr(d, field)
                        was_int = cur is not None and float(cur) == int(cur) and "int" in type(cur).__name__
                        cand = [v for v in pool if v is None or (isinstance(v, int) != was_int)] or pool
                        v = rng.choice(cand)
                        setattr(d, field, v)
                        exp = None if v is None else (["int64", repr(v)] if isinstance(v, int) else ["float64", repr(v)])
                        self.sh.dimattrs[(da.id, d.index, field)] = exp
                    rng.choice([lambda: num("offset", [None, 2, 2.5, 0.25, 3, -1]), lambda: num("sampling_interval", [1, 0.1, 3, 2.5, 0.001]),
                                lambda: setattr(d, "unit", rng.choice([None, "s"])), lambda: setattr(d, "label", rng.choice([None, "ü"]))])()
                elif isinstance(d, nix.SetDimension):
                    if d.has_link:
                        return "skip"
                    d.labels = rng.choice([["a"], ["p", "q", "r"], []])
                else:
                    if d.has_link and rng.random() < 0.6:
                        if rng.random() < 0.5:
                            d.remove_link()
                        return
                    # whole-number ticks given as Python ints, later overwritten by fractions (and vice versa)
                    t = rng.choice([[0.5, 1.5], [3.0], [1.0, 1.0, 2.0], [1, 2], [0, 5, 7], [0.25, 0.75, 1.25]])
                    d.ticks = t
                    self.sh.dimattrs[(da.id, d.index, "ticks")] = [float(x) for x in t]
            add(("dim.attr", 0.5, dim_attr))

    def _tag_ops(self, b, tg, add):
        nix, rng = self.nix, self.rng

        def t_ref():
            x = self.pick(b.data_arrays)
            if x is None or x in tg.references:
                return "skip"
            tg.references.append(x)
            self.sh.order.setdefault((tg.id, "references"), []).append(x.id)
        add(("tag.add_reference", 0.8, t_ref))

        def t_unref():
            x = self.pick(tg.references)
            if x is None:
                return "skip"
            del tg.references[rng.choice([x.id, x, x.name])]
            self.sh.order[(tg.id, "references")].remove(x.id)
        add(("tag.del_reference", 0.2, t_unref))

        def t_feat():
            pool = list(b.data_arrays)
            x = self.pick(pool)
            if x is None:
                return "skip"
            lt = rng.choice(list(nix.LinkType))
            ft = tg.create_feature(x, lt if rng.random() < 0.7 else lt.value)
            self.sh.alive[ft.id] = "Feature"
            self.sh.order.setdefault((tg.id, "features"), []).append(ft.id)
            self.expect(ft, "data", self.ref(x))
            self.expect(ft, "link_type", ["enum", str(lt)])
        add(("tag.create_feature", 0.6, t_feat))

        def t_feat_mod():
            ft = self.pick(tg.features)
            if ft is None:
                return "skip"
            if rng.random() < 0.5:
                lt = rng.choice(list(nix.LinkType))
                ft.link_type = lt
                self.expect(ft, "link_type", ["enum", str(lt)])
            else:
                x = self.pick(b.data_arrays)
                if x is None:
                    return "skip"
                ft.data = x
                self.expect(ft, "data", self.ref(x))
        add(("feature.modify", 0.3, t_feat_mod))

        def t_delfeat():
            ft = self.pick(tg.features)
            if ft is None:
                return "skip"
            fid = ft.id
            del tg.features[rng.choice([fid, list(tg.features).index(ft)])]
            self.sh.kill({fid})
        add(("tag.delete_feature", 0.15, t_delfeat))

        def t_units():
            v = rng.choice([None, ["mV"], ["s", " m s"], []])
            tg.units = v
            self.expect(tg, "units", [u.replace(" ", "") for u in (v or [])])
        add(("tag.units", 0.4, t_units))

        def t_attr():
            self._set_str(tg, "definition")
        add(("tag.definition", 0.2, t_attr))
        if isinstance(tg, nix.Tag):
            def t_pos():
                p = [1.0, 2.5, -3.0][:rng.randint(1, 3)]
                tg.position = p
                self.expect(tg, "position", self.fl(p))
                e = rng.choice([None, [1.0], [0.5, 2.0]])
                tg.extent = e
                self.expect(tg, "extent", self.fl(e or []))
            add(("tag.position_extent", 0.5, t_pos))
        else:
            def mt_pos():
                das = [d for d in b.data_arrays if d.dtype.kind in "fiu"]
                if rng.random() < 0.4:
                    # positions / extents are not confined to the multi-tag's block: sometimes an array of another block
                    das = [d for ob in self.f.blocks if ob.id != b.id for d in ob.data_arrays if d.dtype.kind in "fiu"] or das
                x = self.pick(das)
                if x is None:
                    return "skip"
                if rng.random() < 0.5:
                    tg.positions = x
                    self.expect(tg, "positions", self.ref(x))
                else:
                    if rng.random() < 0.3 and tg.extents is not None:
                        tg.extents = None
                        self.expect(tg, "extents", None)
                    else:
                        tg.extents = x
                        self.expect(tg, "extents", self.ref(x))
            add(("mtag.positions_extents", 0.5, mt_pos))
        self._metadata_ops(tg, add, 0.4)
        self._source_link_ops(b, tg, add, 0.4)

    def _section_ops(self, s, add):
        nix, rng = self.nix, self.rng

        def s_attr():
            self._set_str(s, rng.choice(["reference", "repository", "definition"]))
        add(("section.attr", 0.8, s_attr))

        def s_link():
            t = self.pick([x for x in self.all_sections() if x.id != s.id])
            if t is None:
                return "skip"
            s.link = t
            self.expect(s, "link", self.ref(t))
        add(("section.link", 0.3, s_link))

        def s_prop():
            name = self.uniq(s.props)
            vals = rng.choice([[1, 2], [1.5], ["a", "ü"], [True, False], [2 ** 62], [float("inf")]])
            if rng.random() < 0.3:
                p = s.create_property(name, nix.DataType.Int64)
                vals = []
            elif rng.random() < 0.3:
                s[name] = vals
                p = s.props[name]
            else:
                p = s.create_property(name, vals)
            self.born(p, s.id, "props")
            self.expect(p, "values", self.canon_vals(vals))
        add(("section.create_property", 1.5, s_prop))
        p = self.pick(s.props)
        if p is not None:
            p = self.hop(s.props, p)

            def p_vals():
                cur = list(p.values)
                dt = p.data_type
                if dt == nix.DataType.String:
                    v = ["s", "tü"]
                elif np.dtype(dt) == np.dtype("int64"):
                    v = [3, 4, 5]
                elif np.dtype(dt) == np.dtype("float64"):
                    v = [2.5, -0.0]
                else:
                    v = [False, True]
                k = rng.choice(["set", "extend", "clear", "dict"])
                if k == "set":
                    p.values = v
                    cur = v
                elif k == "extend":
                    p.extend_values(v)
                    cur = cur + v
                elif k == "dict":
                    s[p.name] = v
                    cur = v
                else:
                    p.values = rng.choice([None, []])
                    cur = []
                self.expect(p, "values", self.canon_vals(cur))
            add(("property.values", 1.0, p_vals))

            def p_attr():
                a = rng.choice(["unit", "definition", "reference", "dependency", "dependency_value", "value_origin", "uncertainty"])
                if a == "unit":
                    self._set_str(p, a, UNITS)
                elif a == "uncertainty":
                    v = rng.choice([None, 0.5, 2])
                    p.uncertainty = v
                    self.expect(p, a, None if v is None else ["float64", repr(float(v))])
                else:
                    self._set_str(p, a)
            add(("property.attr", 0.6, p_attr))
            if self.deletes:
                def p_del():
                    pid = p.id
                    if rng.random() < 0.5:
                        del s.props[rng.choice([p.name, pid, p])]
                    else:
                        del s[p.name]
                    self.sh.kill({pid})
                add(("delete_property", 0.2, p_del))

    def canon_vals(self, vals):
        out = []
        for v in vals:
            if isinstance(v, np.generic):
                v = v.item()
            if isinstance(v, bool):
                out.append([type(np.bool_(True)).__name__, repr(v)])
            elif isinstance(v, int):
                out.append(["int64", repr(v)])
            elif isinstance(v, float):
                out.append(["float64", repr(v)])
            else:
                out.append(v)
        return out

    # ---- driver ------------------------------------------------------------------------
    def step(self):
        """Apply one random operation.  Returns (name, None) or (name, exception)."""
        ops = self.ops()
        total = sum(w for _, w, _ in ops)
        r = self.rng.random() * total
        for name, w, fn in ops:
            r -= w
            if r <= 0:
                break
        self.n += 1
        try:
            res = fn()
            if res == "skip":
                self.log.append(name + ":skip")
                return name + ":skip", None
            self.log.append(name)
            return name, None
        except Exception as e:
            self.log.append(name + ":" + type(e).__name__)
            return name, e

    # ---- oracle: shadow vs snapshot ----------------------------------------------------
    def compare(self, snap, snapper_canon=None):
        """Compare the shadow with a snapshot.  Returns list of (mechanism, detail)."""
        out = []
        table = snap.table
        byid = {k.split(":", 1)[1]: (k, rec) for k, rec in table.items() if k != "File:"}
        for i, kind in self.sh.alive.items():
            if i not in byid:
                out.append(("model:entity_missing:%s" % kind, {"id": i, "kind": kind}))
        for i in self.sh.dead:
            if i in byid:
                out.append(("model:deleted_entity_present:%s" % byid[i][0].split(":")[0], {"id": i}))
        for (i, attr), exp in self.sh.attrs.items():
            if i not in byid:
                continue
            key, rec = byid[i]
            got = rec.get(attr, "__absent__")
            if exp == "__dangling__":
                if isinstance(got, list) and len(got) == 2 and got[0] == "ref" and got[1].split(":", 1)[1] in self.sh.dead:
                    out.append(("model:link_yields_deleted:%s.%s" % (key.split(":")[0], attr), {"entity": key, "got": got}))
                continue
            if got != exp:
                out.append(("model:attr:%s.%s" % (key.split(":")[0], attr), {"entity": key, "attr": attr, "expected": exp, "got": got}))
        for (i, pos, field), exp in self.sh.dimattrs.items():
            if i not in byid:
                continue
            key, rec = byid[i]
            dims = rec.get("__dims__")
            if not isinstance(dims, list) or pos - 1 >= len(dims) or not isinstance(dims[pos - 1], dict):
                continue        # the descriptors were replaced meanwhile (judged by the differential oracle)
            got = dims[pos - 1].get(field, "__absent__")
            if field == "ticks":
                if dims[pos - 1].get("has_link"):
                    continue        # the ticks were replaced by a link meanwhile
                try:
                    got = [float(x[1]) for x in got]      # judged as numbers: whether whole numbers read back as int or float is not fixed
                except Exception:
                    pass
            if got != exp:
                out.append(("model:dimension_attr:%s" % field, {"entity": key, "dimension": pos, "expected": exp, "got": got}))
        for (pid, cname), lst in self.sh.order.items():
            if pid == "File":
                rec = table.get("File:", {})
            elif pid in byid:
                rec = byid[pid][1]
            else:
                continue
            got = rec.get(cname)
            if not (isinstance(got, list) and got and got[0] == "container"):
                out.append(("model:container_unreadable:%s" % cname, {"parent": pid, "got": got}))
                continue
            gids = [x[1].split(":", 1)[1] if isinstance(x, list) and x and x[0] == "ref" else x for x in got[1]]
            if gids != lst:
                pk = "File" if pid == "File" else byid[pid][0].split(":")[0]
                out.append(("model:order:%s.%s" % (pk, cname), {"parent": pid, "expected": lst, "got": gids}))
        for i, rows in self.sh.rows.items():
            if i not in byid or rows is None:
                continue
            key, rec = byid[i]
            got = rec.get("__rows__")
            try:
                plain = [[c[1] if isinstance(c, list) else repr(c) for c in r] for r in got]
            except Exception:
                plain = got
            exp = [[repr(c) for c in r] for r in rows]
            if plain != exp:
                out.append(("model:frame_rows", {"entity": key, "expected": exp[:6], "got": plain[:6] if isinstance(plain, list) else plain}))
        from .snapshot import digest_array
        for i, arr in self.sh.data.items():
            if i not in byid:
                continue
            key, rec = byid[i]
            got = rec.get("__data__")
            if rec.get("polynom_coefficients") not in ([], None) or rec.get("expansion_origin") not in (None, ["int64", "0"]):
                continue  # calibrated reads are C15's business
            exp = ["nd", str(arr.dtype), list(arr.shape), digest_array(np.asarray(arr))]
            if not (isinstance(got, list) and got[:4] == exp):
                out.append(("model:data:%s" % key.split(":")[0], {"entity": key, "expected": exp, "got": got}))
        return out
