"""C08 - tagged data is exactly the samples whose coordinates lie in the tagged region.

Oracle: per dimension the exact index set  I_d = {i : coordinate_d(i) in region_d}  computed in rational arithmetic on
the doubles the file stores (position, extent, ticks, offset, interval -> Fractions) and the exact power-of-ten ratio of
tag unit to dimension unit; expected data = ref[np.ix_(I_1..I_r)] restricted to the stored samples.  The library's
documented float tolerance (np.isclose band around a sample, A3) is never entered: a generated region boundary is either
robustly ON a sample (equal in exact arithmetic and in the float computation the library performs) or robustly APART
from every sample (>= 5 % of the local spacing); anything else is regenerated.
"""
from fractions import Fraction as F

ID = "C08"
LEVEL = "exploration"
TECHNIQUE = ("runtime reference-model monitor on real tags / multi-tags / features in a real file: exact rational region "
             "membership per dimension (C07 semantics, exact power-of-ten unit ratio) composed with NumPy indexing, "
             "compared element by element with tagged_data()/feature_data() reads, both stop rules")
RULE = ("Case = one tagged_data / feature_data call.  Reference arrays of rank 1-3 (extents 1-6) with every mix of sampled "
        "(8 intervals x 9 offsets incl. |offset|/interval up to 1e6), range (irregular ticks, negative starts) and set "
        "(labelled / label-less) descriptors; positions per dimension by class {on a sample, between samples at 0.25/0.5/0.9, "
        "before the first by <1 or >=1 step, on the first, on the last, beyond the last}; extents by class {missing, zero, "
        "ending on a sample, between samples, shorter than a step, beyond the stored data}; positions shorter than the rank; "
        "Tag and MultiTag (1-D and 2-D position arrays); both stop rules; tag unit / dimension unit over 21x21 SI prefixes of "
        "s, V, Hz, m, S with powers 1, 2, 3, -1 (plus unit-less, unit on a set dimension, unit-less dimension, different base unit, compound tag unit); features tagged / "
        "indexed / untagged; ticks that are large compared with their spacing (2^16, 2^20 + k/8); units, and positions / extents of multi-tags, restated through "
        "another handle (re-pointed to new arrays, rewritten in place) before the first handle is asked again.  Distinct by (descriptor kinds, position classes, extent classes, stop rule, prefix pair class, "
        "Tag|MultiTag, call, expected outcome class); trivial = none.")
ASSUMPTIONS = ["region boundaries inside the library's documented float tolerance band of a sample are not generated (A3): every boundary is "
               "robustly on a sample or at least 5% of the local spacing away; sample indices stay below 100",
               "if no stored sample lies in the region or the region runs past the stored data, accepted outcomes are an invalid view, "
               "OutOfBounds/IndexError, or exactly the stored samples that do lie in the region - never other data",
               "unconvertible units (different base unit, a unit on a set dimension, a unit for a unit-less dimension): any refusal is accepted, data is not",
               "LinkType.Indexed on a single-position Tag yields the whole feature array (A5)",
               "sampled and label-less set dimensions continue beyond the stored data (coordinates exist, samples do not)",
               "tag units are either absent or given for every position entry; extents are absent or as long as the position; extents are >= 0"]

NSHARDS = 16
PREFIXES = {"y": -24, "z": -21, "a": -18, "f": -15, "p": -12, "n": -9, "u": -6, "m": -3, "c": -2, "d": -1, "": 0,
            "da": 1, "h": 2, "k": 3, "M": 6, "G": 9, "T": 12, "P": 15, "E": 18, "Z": 21, "Y": 24}
BASES = ["s", "V", "Hz", "m", "S"]          # s and S: second and siemens differ by case only
POWERS = ["", "", "", "", "", "^2", "^-1", "^3"]
IVALS = ["1", "0.5", "0.1", "2", "0.25", "0.001", "3", "0.3"]
OFFS = [None, "0", "1", "-2", "0.5", "100", "1000", "-1000", "3.1"]


def plan(tier, seed):
    n = 1 if tier == "quick" else 10
    return [{"i": i, "arrays": 90 * n, "tags": 7} for i in range(NSHARDS)]


def fr(x):
    """exact value of a double"""
    return F(float(x))


class Dim:
    """oracle-side description of one dimension descriptor"""
    def __init__(self, kind, n):
        self.kind, self.n = kind, n
        self.unit = None        # (prefix, base) or None
        self.unbounded = kind in ("sample", "setnolabel")

    def coord(self, i):
        if self.kind == "sample":
            return self.off + i * self.iv
        if self.kind == "range":
            return self.ticks[i]
        return F(i)

    def step(self):
        if self.kind == "sample":
            return self.iv
        return F(1)

    def index_set(self, a, b, inclusive):
        """indices i >= 0 with a <= coord(i) <= b (or < b); for unbounded dimensions up to n + 40"""
        top = self.n + 40 if self.unbounded else self.n
        out = []
        for i in range(top):
            c = self.coord(i)
            if c >= a and ((c <= b) if inclusive else (c < b)):
                out.append(i)
            elif c > b:
                break
        return out

    def snap(self, q, state):
        """a boundary that is robustly ON a sample of a sampled dimension is that sample (doubles carry 1e-16 noise)"""
        if state == "on" and self.kind == "sample":
            return self.off + round((q - self.off) / self.iv) * self.iv
        return q

    def robust(self, q, qf):
        """is boundary q (exact) / qf (as the library computes it in floats) robustly on or apart from every sample?
        returns "on", "apart" or None (ambiguous -> regenerate)"""
        if self.kind == "sample":
            k = (q - self.off) / self.iv
            if k < 0:
                return "apart" if k <= F(-1, 20) else None
            r = round(k)
            d = abs(k - r)
            # "on" = equal up to the rounding noise of the doubles involved (far inside the library's own 1e-8 band)
            noise = F(1, 10 ** 12) + F(4, 2 ** 52) * (abs(q) + abs(self.off)) / self.iv
            if noise > F(1, 10 ** 9):
                return None
            if d <= noise:
                kf = (qf - float(self.off_f)) / float(self.iv_f)
                if r == 0 and kf < 0:
                    # on the first sample in exact arithmetic, below it in the float computation: the library has no
                    # tolerance to the left of the first sample (float noise, A3) - not generated
                    return None
                return "on" if abs(kf - r) <= 1e-7 else None
            return "apart" if d >= F(1, 20) else None
        if self.kind == "range":
            state = "apart"
            for t in self.ticks:
                if q == t:
                    if qf != float(t):
                        return None
                    state = "on"
                elif abs(q - t) < F(1, 20) * self.min_gap or qf == float(t):
                    return None
            return state
        # set dimensions: coordinates are the integers
        r = round(q)
        if q == r:
            return "on" if qf == float(r) else None
        return "apart" if abs(q - r) >= F(1, 20) else None


def mk_unit(rng, scalable=True):
    return (rng.choice(list(PREFIXES)), rng.choice(BASES), rng.choice(POWERS))


def power_of(u):
    return int(u[2][1:]) if u[2] else 1


def parse_unit(text):
    """(prefix, base, power) of a unit string built by this generator, or None"""
    import re
    m = re.fullmatch(r"(.+?)(\^-?\d+)?", text)
    head, power = m.group(1), m.group(2) or ""
    c = [(p, head[len(p):], power) for p in sorted(PREFIXES, key=len, reverse=True) if head.startswith(p) and head[len(p):] in BASES]
    return c[0] if c else None


def unit_str(u):
    return None if u is None else u[0] + u[1] + u[2]


def make_dim(nix, rng, da, n):
    kind = rng.choice(["sample", "sample", "range", "range", "set", "setnolabel"])
    d = Dim(kind, n)
    if kind == "sample":
        iv, off = rng.choice(IVALS), rng.choice(OFFS)
        d.iv_f, d.off_f = float(iv), float(off) if off is not None else 0.0
        d.iv, d.off = fr(d.iv_f), fr(d.off_f)
        d.unit = mk_unit(rng) if rng.random() < 0.7 else None
        da.append_sampled_dimension(d.iv_f, unit=unit_str(d.unit), offset=None if off is None else d.off_f)
    elif kind == "range":
        # (the last two: ticks that are large compared with their spacing, e.g. event times late in a long recording)
        cur = F(rng.choice(["-2", "0", "1", "-0.75", "10", "-2", "0", "1", "-0.75", "10", "1048576", "65536"]))
        ticks = []
        for _ in range(n):
            ticks.append(cur)
            cur += F(rng.choice(["1", "0.5", "2", "0.25", "3", "0.125", "1", "0.5", "0"]))      # "0": a tick value may repeat
        d.ticks = [fr(float(t)) for t in ticks]
        d.min_gap = min([b - a for a, b in zip(d.ticks, d.ticks[1:]) if b > a] or [F(1)])      # smallest POSITIVE gap (ticks may repeat)
        d.unit = mk_unit(rng) if rng.random() < 0.7 else None
        da.append_range_dimension([float(t) for t in ticks], unit=unit_str(d.unit))
    else:
        da.append_set_dimension(["l%d" % i for i in range(n)] if kind == "set" else None)
    return d


def gen_axis_region(rng, d, with_extent):
    """(position, extent or None, position class, extent class) in DIMENSION units, as Fractions"""
    n = d.n
    st = d.step()
    pcls = rng.choice(["on", "on", "between", "between", "before_lt1", "before_ge1", "first", "last", "beyond"])
    if d.kind == "range":
        def gap(i):
            return d.ticks[i + 1] - d.ticks[i] if i + 1 < n else F(1)
    else:
        def gap(i):
            return st
    if pcls == "on":
        i = rng.randrange(n)
        p = d.coord(i)
    elif pcls == "between":
        i = rng.randrange(n)
        p = d.coord(i) + gap(i) * F(rng.choice(["0.25", "0.5", "0.9"]))
    elif pcls == "before_lt1":
        p = d.coord(0) - gap(0) * F(rng.choice(["0.05", "0.5", "0.9"]))
    elif pcls == "before_ge1":
        p = d.coord(0) - gap(0) * F(rng.choice(["1", "2.5", "7"]))
    elif pcls == "first":
        p = d.coord(0)
    elif pcls == "last":
        p = d.coord(n - 1)
    else:
        p = d.coord(n - 1) + gap(n - 1) * F(rng.choice(["0.5", "1", "3"]))
    if not with_extent:
        return p, None, pcls, "none"
    ecls = rng.choice(["zero", "to_sample", "to_sample", "between", "short", "beyond", "whole"])
    if ecls == "zero":
        e = F(0)
    elif ecls == "to_sample":
        j = rng.randrange(n)
        e = d.coord(j) - p
        if e <= 0:
            e = gap(min(j, n - 1)) * rng.randrange(1, 4) if d.kind != "range" else (d.coord(n - 1) - p if d.coord(n - 1) > p else F(1))
    elif ecls == "between":
        e = gap(0) * F(rng.choice(["0.5", "1.5", "2.25"]))
    elif ecls == "short":
        e = gap(0) * F(rng.choice(["0.05", "0.1", "0.3"]))
    elif ecls == "beyond":
        e = (d.coord(n - 1) - p if d.coord(n - 1) > p else F(0)) + gap(n - 1) * F(rng.choice(["0.5", "2", "20"]))
    else:
        e = (d.coord(n - 1) - d.coord(0)) + gap(0) * 2
        p, pcls = d.coord(0) - gap(0) * F("0.5"), "before_lt1"
    if e < 0:
        e = F(0)
    return p, e, pcls, ecls


class Runner:
    def __init__(self, ctx, nix, np):
        from .. import env
        self.ctx, self.nix, self.np = ctx, nix, np
        self.path = env.scratch_file("c08_%d.nix" % ctx.shard)
        self.f = nix.File.open(self.path, nix.FileMode.Overwrite)
        self.b = self.f.create_block("b", "t")
        self.count = 0
        from nixio.util import units as U
        self.U = U

    def fresh(self):
        self.count += 1
        if self.count % 25 == 0:
            self.f.close()
            self.f = self.nix.File.open(self.path, self.nix.FileMode.Overwrite)
            self.b = self.f.create_block("b", "t")

    def make_array(self, rng, name, rank=None):
        np = self.np
        rank = rank or rng.choice([1, 1, 2, 2, 3])
        shape = tuple(rng.randint(1, 6) for _ in range(rank))
        data = (np.arange(float(np.prod(shape))).reshape(shape) + rng.randrange(1000) * 100.0)
        da = self.b.create_data_array(name, "t", data=data)
        dims = [make_dim(self.nix, rng, da, shape[k]) for k in range(rank)]
        return da, data, dims

    # ---- units ----------------------------------------------------------------------------------------------
    def pick_units(self, rng, dims, plen):
        """returns (unit strings or None, per-dim exact scale or None when incompatible, class)"""
        mode = rng.choice(["none", "none", "same", "prefixed", "prefixed", "prefixed", "bad"])
        if mode == "none":
            return None, [F(1)] * plen, "no_units"
        units, scales, cls, bad = [], [], set(), False
        for k in range(plen):
            d = dims[k]
            if d.kind in ("set", "setnolabel"):
                if mode == "bad" and rng.random() < 0.5:
                    units.append("ms")
                    bad = True
                    cls.add("unit_on_set_dimension")
                else:
                    units.append("none")
                scales.append(F(1))
                continue
            if d.unit is None:
                # a unit-less dimension cannot take a position with a unit; nothing neutral can be stored in a units list
                units.append("ms")
                bad = True
                cls.add("unit_for_unitless_dimension")
                scales.append(F(1))
                continue
            dp, base, pw = d.unit
            if mode == "bad" and rng.random() < 0.2:
                # same base unit, another power: not convertible
                units.append(rng.choice(list(PREFIXES)) + base + rng.choice([x for x in ["", "^2", "^-1", "^3"] if x != pw]))
                bad = True
                cls.add("different_power")
                scales.append(F(1))
                continue
            if mode == "bad" and rng.random() < 0.3:
                # a compound unit whose first factor would be convertible: the position cannot be converted into the dimension's unit
                units.append(rng.choice(list(PREFIXES)) + base + rng.choice(["/", "*"]) + rng.choice(["s", "ms", "kHz", "m^2"]))
                bad = True
                cls.add("compound_tag_unit")
                scales.append(F(1))
                continue
            if mode == "bad" and rng.random() < 0.6:
                other = rng.choice([b for b in BASES if b != base])
                units.append(rng.choice(["", "m", "k"]) + other)
                bad = True
                cls.add("different_base_unit")
                scales.append(F(1))
                continue
            tp = dp if mode == "same" else rng.choice(list(PREFIXES))
            units.append(tp + base + pw)
            scales.append(F(10) ** ((PREFIXES[tp] - PREFIXES[dp]) * power_of(d.unit)))
            if pw:
                cls.add("with_power")
            cls.add("same" if tp == dp else ("one_prefixed" if (tp == "" or dp == "") else "both_prefixed"))
        return units, (None if bad else scales), "+".join(sorted(cls))

    def lib_scale(self, tu, d):
        """the float factor the library would use (generator side only: to keep boundaries robust)"""
        try:
            return float(self.U.scaling(tu, unit_str(d.unit)))
        except Exception:
            return None

    # ---- region generation -----------------------------------------------------------------------------------
    def gen_region(self, rng, dims, plen, with_extent, units, scales):
        """returns pos, ext (lists of floats as stored), exact per-dim (a, b, point?) , classes - or None when no robust region was found"""
        pos, ext, exact, pc, ec = [], [], [], [], []
        for k in range(plen):
            d = dims[k]
            ok = False
            for _ in range(12):
                p, e, pcls, ecls = gen_axis_region(rng, d, with_extent)
                sc = scales[k] if scales is not None else F(1)
                pf = float(p / sc)
                ef = None if e is None else float(e / sc)
                # exact semantics on the stored doubles
                a = fr(pf) * sc
                b = a if ef is None else a + fr(ef) * sc
                if scales is None:
                    ok = True
                    break
                if abs(a) > 10 ** 9 or abs(pf) > 1e15 or (ef is not None and ef > 1e15):
                    continue
                ls = 1.0
                if units is not None and d.kind in ("sample", "range") and d.unit is not None:
                    ls = self.lib_scale(units[k], d)
                    if ls is None:
                        ls = float(sc)
                af = pf * ls
                bf = af if ef is None else ef * ls + af
                ra, rb = d.robust(a, af), d.robust(b, bf)
                if ra is None or rb is None:
                    continue
                a, b = d.snap(a, ra), d.snap(b, rb)
                if ef is not None and ef > 0 and not (b > a):
                    continue
                ok = True
                break
            if not ok:
                return None
            pos.append(pf)
            ext.append(ef)
            exact.append((a, b, ef is None or ef == 0.0))
            pc.append(pcls)
            ec.append(ecls)
        return pos, (ext if with_extent else None), exact, tuple(pc), tuple(ec)

    def exact_for(self, dims, pos, ext, units, scales):
        """exact region of stored position / extent values under given units; None when a boundary is not robust"""
        exact = []
        for k in range(len(pos)):
            d, sc = dims[k], scales[k]
            a = fr(pos[k]) * sc
            b = a if ext is None else a + fr(ext[k]) * sc
            if abs(a) > 10 ** 9:
                return None
            ls = 1.0
            if units is not None and d.kind in ("sample", "range") and d.unit is not None:
                ls = self.lib_scale(units[k], d) or float(sc)
            af = pos[k] * ls
            bf = af if ext is None else ext[k] * ls + af
            ra, rb = d.robust(a, af), d.robust(b, bf)
            if ra is None or rb is None:
                return None
            a, b = d.snap(a, ra), d.snap(b, rb)
            if ext is not None and ext[k] > 0 and not (b > a):
                return None
            exact.append((a, b, ext is None or ext[k] == 0.0))
        return exact

    # ---- oracle ------------------------------------------------------------------------------------------------
    def expect(self, dims, exact, shape, inclusive_rule):
        sets, past = [], False
        for k, d in enumerate(dims):
            if k < len(exact):
                a, b, point = exact[k]
                incl = inclusive_rule or point
                idx = d.index_set(a, b, incl)
                stored = [i for i in idx if i < shape[k]]
                if len(stored) != len(idx):
                    past = True
                if d.kind in ("range", "set") and (b > d.coord(shape[k] - 1)):
                    past = True
                sets.append(stored)
            else:
                sets.append(list(range(shape[k])))
        return sets, past

    def judge(self, label, call, data, sets, past, bad_units, sig, info, rep):
        ctx, np = self.ctx, self.np
        try:
            v = call()
            valid = bool(v.valid)
            got = np.asarray(v[:]) if valid else None
            outcome = "data" if valid else "invalid_view"
        except Exception as e:
            name = type(e).__name__
            from ..core import raised_in_library
            got = None
            outcome = name if name in ("OutOfBounds", "IncompatibleDimensions", "IndexError") else "raises_" + name
            if not outcome.startswith("raises_") or raised_in_library(e):
                pass
            else:
                raise
        empty = any(len(s) == 0 for s in sets)
        expcls = "bad_units" if bad_units else ("empty" if empty else ("past_end" if past else "inside"))
        ctx.case(sig + (label, expcls), sample=dict(info, call=label, expected=expcls, outcome=outcome) if expcls == "inside" else None)
        ctx.count("calls_judged")
        ctx.count("outcome:%s:%s" % (expcls, outcome))
        if outcome.startswith("raises_"):
            ctx.violation("%s:unexpected_exception:%s:%s" % (label, expcls, outcome), dict(info, outcome=outcome), rep)
            return
        if bad_units:
            if outcome in ("data", "invalid_view") and got is not None and got.size:
                ctx.violation("%s:data_despite_unconvertible_units:%s" % (label, info.get("unit_class")), dict(info, got=got), rep)
            return
        if outcome == "IncompatibleDimensions":
            ctx.violation("%s:convertible_units_refused:%s" % (label, info.get("unit_class")), info, rep)
            return
        if outcome == "data":
            ctx.count("data_compared")
            if empty:
                if got.size != 0:
                    ctx.violation("%s:data_for_empty_region:%s" % (label, info.get("unit_class")), dict(info, got=got, index_sets=sets), rep)
                return
            exp = data[np.ix_(*sets)]
            if got.shape != exp.shape or not np.array_equal(got, exp):
                kind = "wrong_shape" if got.size != exp.size else "wrong_data"
                ctx.violation("%s:%s:%s:%s" % (label, kind, "past_end" if past else "inside", info.get("unit_class")),
                              dict(info, expected=exp, got=got, index_sets=sets), rep)
            return
        # refusal / invalid view
        if not empty and not past:
            ctx.violation("%s:refused_inside_data:%s:%s" % (label, outcome, info.get("unit_class")), dict(info, index_sets=sets), rep)

    # ---- one array with its tags -----------------------------------------------------------------------------------
    def run_array(self, ai, spec, rep):
        ctx, nix, np = self.ctx, self.nix, self.np
        rng = ctx.rng("c08", ai)
        self.fresh()
        da, data, dims = self.make_array(rng, "ref%d" % ai)
        rank = len(dims)
        kinds = tuple(d.kind for d in dims)
        fa, fdata, fdims = self.make_array(rng, "feat%d" % ai)
        for ti in range(spec["tags"]):
            trng = ctx.rng("c08", ai, ti)
            plen = trng.choice([rank, rank, rank, max(1, rank - 1), 1])
            with_extent = trng.random() < 0.75
            units, scales, ucls = self.pick_units(trng, dims, plen)
            reg = self.gen_region(trng, dims, plen, with_extent, units, scales)
            if reg is None:
                ctx.count("region_not_robust_skipped")
                continue
            pos, ext, exact, pc, ec = reg
            multi = trng.random() < 0.5
            info = dict(rep, array=ai, tag=ti, kinds=kinds, shape=list(data.shape), position=pos, extent=ext, units=units, unit_class=ucls,
                        dim_units=[unit_str(d.unit) for d in dims], multi=multi,
                        dims=[{"iv": d.iv_f, "off": d.off_f} if d.kind == "sample" else ([float(t) for t in d.ticks] if d.kind == "range" else d.kind) for d in dims])
            ltype = trng.choice([nix.LinkType.Tagged, nix.LinkType.Indexed, nix.LinkType.Untagged])
            if not multi:
                tg = self.b.create_tag("t%d_%d" % (ai, ti), "t", pos)
                if ext is not None:
                    tg.extent = ext
                if units is not None:
                    tg.units = units
                tg.references.append(da)
                tg.create_feature(fa, ltype)
                calls = lambda rule: (lambda: tg.tagged_data(0, rule))       # noqa
                fcalls = lambda rule: (lambda: tg.feature_data(0, rule))      # noqa
                posidx, npos = 0, 1
            else:
                npos = trng.randint(1, 4)
                posidx = trng.randrange(npos)
                # other rows: harmless in-range values
                P = np.zeros((npos, plen))
                E = np.zeros((npos, plen))
                for r in range(npos):
                    for k in range(plen):
                        P[r, k] = pos[k] if r == posidx else float(trng.randrange(3))
                        E[r, k] = (ext[k] if ext is not None else 0.0) if r == posidx else 1.0
                one_d = plen == 1 and trng.random() < 0.5
                parr = self.b.create_data_array("p%d_%d" % (ai, ti), "t", data=P[:, 0] if one_d else P)
                mt = self.b.create_multi_tag("m%d_%d" % (ai, ti), "t", parr)
                if ext is not None:
                    mt.extents = self.b.create_data_array("e%d_%d" % (ai, ti), "t", data=E[:, 0] if one_d else E)
                if units is not None:
                    mt.units = units
                mt.references.append(da)
                mt.create_feature(fa, ltype)
                info["positions_array"] = "1-D" if one_d else "2-D"
                info["position_index"] = posidx
                calls = lambda rule: (lambda: mt.tagged_data(posidx, 0, rule))       # noqa
                fcalls = lambda rule: (lambda: mt.feature_data(posidx, 0, rule))      # noqa
            for rule in (nix.SliceMode.Exclusive, nix.SliceMode.Inclusive):
                incl = rule == nix.SliceMode.Inclusive
                sig = (kinds, pc, ec, rule.name, ucls, "MultiTag" if multi else "Tag")
                inf = dict(info, stop_rule=rule.name, position_classes=pc, extent_classes=ec)
                if scales is None:
                    self.judge("tagged_data", calls(rule), data, [[0]] * rank, False, True, sig, inf, rep)
                else:
                    sets, past = self.expect(dims, exact, data.shape, incl)
                    self.judge("tagged_data", calls(rule), data, sets, past, False, sig, inf, rep)
                # ---- feature data ----
                finf = dict(inf, link_type=str(ltype), feature_shape=list(fdata.shape), feature_dim_units=[unit_str(d.unit) for d in fdims],
                            feature_dims=[{"iv": d.iv_f, "off": d.off_f} if d.kind == "sample" else ([float(t) for t in d.ticks] if d.kind == "range" else d.kind) for d in fdims])
                if ltype == nix.LinkType.Tagged:
                    # the same region, applied to the feature array's own descriptors: the units must suit THOSE dimensions
                    fplen = min(plen, len(fdims))
                    fbad = False
                    fexact = []
                    for k in range(fplen):
                        d = fdims[k]
                        sc = F(1)
                        if units is not None:
                            tu = units[k]
                            if d.kind in ("set", "setnolabel"):
                                if tu != "none":
                                    fbad = True
                            elif tu == "none" or d.unit is None:
                                fbad = True
                            else:
                                pu = parse_unit(tu)
                                if pu is None or pu[1] != d.unit[1] or pu[2] != d.unit[2] or "/" in tu or "*" in tu:
                                    fbad = True
                                else:
                                    sc = F(10) ** ((PREFIXES[pu[0]] - PREFIXES[d.unit[0]]) * power_of(d.unit))
                        a = fr(pos[k]) * sc
                        b = a if (ext is None) else a + fr(ext[k]) * sc
                        lsf = 1.0
                        if not fbad and units is not None and d.kind in ("sample", "range"):
                            lsf = self.lib_scale(units[k], d) or float(sc)
                        af = pos[k] * lsf
                        bf = af if ext is None else ext[k] * lsf + af
                        if not fbad:
                            ra, rb = d.robust(a, af), d.robust(b, bf)
                            if ra is None or rb is None or abs(a) > 10 ** 9:
                                fexact = None
                                break
                            a, b = d.snap(a, ra), d.snap(b, rb)
                        fexact.append((a, b, ext is None or ext[k] == 0.0))
                    if fexact is None:
                        ctx.count("feature_region_not_robust_skipped")
                        continue
                    if fbad:
                        self.judge("feature_data:tagged", fcalls(rule), fdata, [[0]] * len(fdims), False, True, sig + ("tagged",), finf, rep)
                    else:
                        fsets, fpast = self.expect(fdims, fexact, fdata.shape, incl)
                        self.judge("feature_data:tagged", fcalls(rule), fdata, fsets, fpast, False, sig + ("tagged",), finf, rep)
                elif ltype == nix.LinkType.Indexed and multi:
                    fsets = [[posidx] if posidx < fdata.shape[0] else []] + [list(range(n)) for n in fdata.shape[1:]]
                    self.judge("feature_data:indexed", fcalls(rule), fdata, fsets, posidx >= fdata.shape[0], False, sig + ("indexed",), finf, rep)
                else:
                    fsets = [list(range(n)) for n in fdata.shape]
                    self.judge("feature_data:%s" % ("untagged" if ltype == nix.LinkType.Untagged else "indexed_on_tag"), fcalls(rule), fdata, fsets,
                               False, False, sig + ("whole",), finf, rep)
            if multi and scales is not None and trng.random() < 0.6:
                self.restate_positions(trng, mt, "m%d_%d" % (ai, ti), P, E, ext is not None, one_d, posidx, dims, exact, data, info, rep,
                                       (kinds, pc, ec, ucls, "MultiTag"))
            elif units is not None and scales is not None and trng.random() < 0.5:
                self.restate_units(trng, dims, pos, ext, units, ("m%d_%d" if multi else "t%d_%d") % (ai, ti), multi, calls, data, info, rep,
                                   (kinds, pc, ec, ucls, "MultiTag" if multi else "Tag"))

    def restate_positions(self, trng, first, name, P, E, has_ext, one_d, posidx, dims, exact, data, info, rep, sig):
        """The positions (and extents) of a multi-tag are restated through ANOTHER handle of the multi-tag - re-pointed to new
        arrays in which the judged region sits in a new last row, or rewritten in place with the judged region moved to
        another row; the first handle (which has already retrieved data) must use what is stored now."""
        nix, np, ctx = self.nix, self.np, self.ctx
        other = self.b.multi_tags[name]
        npos = P.shape[0]
        how = trng.choice(["repoint", "rewrite"]) if npos >= 2 else "repoint"
        if how == "repoint":
            q = npos
            P2 = np.vstack([P, P[posidx:posidx + 1]])
            E2 = np.vstack([E, E[posidx:posidx + 1]])
            P2[posidx, :] = 0.0
            E2[posidx, :] = 1.0
            k = len(self.b.data_arrays)
            other.positions = self.b.create_data_array("rp_%d" % k, "t", data=P2[:, 0] if one_d else P2)
            if has_ext:
                other.extents = self.b.create_data_array("re_%d" % k, "t", data=E2[:, 0] if one_d else E2)
        else:
            q = (posidx + 1 + trng.randrange(npos - 1)) % npos
            P2, E2 = P.copy(), E.copy()
            P2[[posidx, q]] = P2[[q, posidx]]
            E2[[posidx, q]] = E2[[q, posidx]]
            parr = self.b.data_arrays[other.positions.name]
            parr[...] = P2[:, 0] if one_d else P2
            if has_ext:
                earr = self.b.data_arrays[other.extents.name]
                earr[...] = E2[:, 0] if one_d else E2
        ctx.count("positions_restated_through_another_handle:" + how)
        for rule in (nix.SliceMode.Exclusive, nix.SliceMode.Inclusive):
            sets, past = self.expect(dims, exact, data.shape, rule == nix.SliceMode.Inclusive)
            self.judge("tagged_data:after_positions_%s_through_another_handle" % ("repointed" if how == "repoint" else "rewritten"),
                       (lambda rule=rule: first.tagged_data(q, 0, rule)), data, sets, past, False,
                       sig + (rule.name, "positions_" + how), dict(info, position_index=q, stop_rule=rule.name), rep)

    def restate_units(self, trng, dims, pos, ext, units, holder_name, multi, call_through_first, data, info, rep, sig):
        """The units of the tag are changed through ANOTHER handle; the first handle (which has already been used to retrieve
        data) must convert with the new units."""
        nix, ctx = self.nix, self.ctx
        new_units, new_scales = [], []
        for k, u in enumerate(units):
            d = dims[k]
            if d.kind in ("set", "setnolabel") or d.unit is None or u in ("none", ""):
                new_units.append(u)
                new_scales.append(F(1))
                continue
            tp = trng.choice([p for p in PREFIXES if p + d.unit[1] + d.unit[2] != u])
            new_units.append(tp + d.unit[1] + d.unit[2])
            new_scales.append(F(10) ** ((PREFIXES[tp] - PREFIXES[d.unit[0]]) * power_of(d.unit)))
        if new_units == list(units):
            return
        exact = self.exact_for(dims, pos, ext, new_units, new_scales)
        if exact is None:
            ctx.count("restated_units_not_robust_skipped")
            return
        other = (self.b.multi_tags if multi else self.b.tags)[holder_name]
        other.units = new_units
        ctx.count("units_restated_through_another_handle")
        for rule in (nix.SliceMode.Exclusive, nix.SliceMode.Inclusive):
            sets, past = self.expect(dims, exact, data.shape, rule == nix.SliceMode.Inclusive)
            self.judge("tagged_data:after_units_changed_through_another_handle", call_through_first(rule), data, sets, past, False,
                       sig + (rule.name, "restated"), dict(info, units=new_units, units_before=list(units), stop_rule=rule.name), rep)

    def close(self):
        try:
            self.f.close()
        except Exception:
            pass


def run_shard(spec, ctx):
    import numpy as np
    from .. import env
    nix = env.import_nixio()
    R = Runner(ctx, nix, np)
    try:
        for ai in range(spec["arrays"]):
            rep = {"shard": ctx.shard, "array": ai, "tags": spec["tags"]}
            ctx.guarded("array", R.run_array, ai, spec, rep)
    finally:
        R.close()


def finish(m, tier):
    c = m["counters"]
    if not c.get("data_compared") or not c.get("calls_judged"):
        m["inconclusive"].append("no returned data was compared")
    need = ["outcome:inside:data", "outcome:empty:invalid_view"]
    for k in need:
        if not c.get(k):
            m["inconclusive"].append("outcome class never observed: " + k)


def replay(w, ctx):
    import numpy as np
    from .. import env
    nix = env.import_nixio()
    ctx.shard = w.get("shard", 0)
    ctx.case(("replay",))
    ctx.case(("replay", 2))
    R = Runner(ctx, nix, np)
    try:
        R.run_array(w["array"], {"tags": w.get("tags", 7)}, dict(w))
    finally:
        R.close()
