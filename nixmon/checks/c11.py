"""C11 - open modes and format-version gating protect existing files.

Part A (exhaustive grid): header version x mode x file id x format tag, each on a
copy of a file with real content; the outcome of File.open is compared with the
predicate written from the statement, refused opens and read-only sessions must
leave sha256(file) unchanged, Overwrite must give an empty file with a fresh
header, ReadWrite must keep all content.
Part B (read-only sessions): every public mutator of the catalogue is first run
on a writable twin of the file - if (and only if) it changes the twin's
snapshot or raw content, the same call in a read-only session must raise; the
bytes on disk must be identical afterwards, and the read-only snapshot must equal
the writable one.
"""
import hashlib
import os
import shutil

ID = "C11"
LEVEL = "fault_enumeration"
EXHAUSTIVE = ("grid enumerated completely on every run: versions {0,1,2}x{0,1,2,3}x{0,1,2} + three malformed version "
              "arrays (length 2, 4, 0) x modes {r,a,w} x file id {valid, invalid, missing} x format tag {nix, other, missing}; "
              "plus missing-path x 3 modes")
TECHNIQUE = "fault enumeration over header configurations against a predicate monitor; read-only sessions: every catalogued mutator, classified as mutating by a writable twin, must raise; sha256 of the file before/after"
RULE = ("Case A = one grid point (version, mode, id, format) on a copy of a content-bearing file: open outcome vs "
        "predicate, sha256 before/after refused opens and read-only opens, content after ReadWrite/Overwrite.  Case B = "
        "one (catalogued mutator, file) pair in a read-only session, with a writable twin deciding whether the call "
        "mutates.  Distinct by grid point resp. (entity kind, mutator); trivial = mutators that change nothing on the "
        "writable twin (no-ops, not required to raise; counted separately).")
ASSUMPTIONS = ["the library's own format version constant (nixio.file.HDF_FF_VERSION) is what 'the library's version' means",
               "a call is 'mutating' iff it changes the whole-file snapshot or the raw HDF5 content of a writable twin",
               "sha256 of the file is taken with the file closed"]

NSHARDS = 16


def plan(tier, seed):
    # quick: each shard judges one sixteenth of the catalogue on its own generated file (every mutator once per run);
    # thorough: every shard judges the whole catalogue on several files
    return [{"i": i, "files": 1 if tier == "quick" else 5, "extra": 25 if tier == "quick" else 60,
             "stride": 4 if tier == "quick" else 1} for i in range(NSHARDS)]


def sha(path):
    h = hashlib.sha256()
    with open(path, "rb") as fh:
        for chunk in iter(lambda: fh.read(1 << 20), b""):
            h.update(chunk)
    return h.hexdigest()


def grid_points():
    vers = [(x, y, z) for x in (0, 1, 2) for y in (0, 1, 2, 3) for z in (0, 1, 2)] + [(1, 2), (1, 2, 1, 0), ()]
    pts = []
    for v in vers:
        for mode in ("r", "a", "w"):
            for idk in ("valid", "invalid", "missing"):
                for fmt in ("nix", "other", "missing"):
                    pts.append((v, mode, idk, fmt))
    return pts


def predicate(libver, v, mode, idk, fmt):
    """True = open must succeed, False = must be refused."""
    if mode == "w":
        return True
    if fmt != "nix":
        return False
    if len(v) != 3:
        return False
    if mode == "a":
        ok = tuple(v) == tuple(libver)
    else:
        ok = v[0] == libver[0] and v[1] <= libver[1]
    if ok and tuple(v) >= (1, 2, 0) and idk != "valid":
        return False
    return ok


def patch_header(path, v, idk, fmt):
    import h5py
    import numpy as np
    with h5py.File(path, "a") as h:
        h.attrs["version"] = np.array(v, dtype=np.int32)
        if idk == "invalid":
            h.attrs["id"] = "not-a-valid-id"
        elif idk == "missing":
            if "id" in h.attrs:
                del h.attrs["id"]
        if fmt == "other":
            h.attrs["format"] = "xin"
        elif fmt == "missing":
            del h.attrs["format"]


def run_grid(ctx, nix, spec, base, base_snap):
    from .. import env, snapshot
    libver = tuple(nix.file.HDF_FF_VERSION)
    pts = grid_points()
    import gc
    for pi, (v, mode, idk, fmt) in enumerate(pts):
        if pi % NSHARDS != spec["i"]:
            continue
        # a fresh path per point: a refused open may keep its HDF5 handle alive until garbage collection
        work = env.scratch_file("c11_grid_%d_%d.nix" % (ctx.shard, pi))
        shutil.copyfile(base, work)
        patch_header(work, v, idk, fmt)
        before = sha(work)
        expect = predicate(libver, v, mode, idk, fmt)
        rep = {"part": "grid", "version": list(v), "mode": mode, "id": idk, "format": fmt}
        vcls = "lib" if tuple(v) == libver else ("malformed" if len(v) != 3 else ("older_minor" if (v[0] == libver[0] and v[1] < libver[1]) else
                                                   ("same_minor" if v[:2] == libver[:2] else "other")))
        ctx.case(("grid", tuple(v), mode, idk, fmt), sample=dict(rep, must_open=expect) if pi % 97 == 0 else None)
        f = None
        try:
            f = nix.File.open(work, mode)
            opened, err = True, None
        except Exception as e:
            opened, err = False, "%s: %s" % (type(e).__name__, str(e)[:200])
            del e
        key = "%s:%s:id_%s:fmt_%s" % (mode, vcls, idk, fmt)
        try:
            if opened and not expect:
                ctx.violation("open_accepted_but_must_refuse:" + key, rep, rep)
            elif not opened and expect:
                ctx.violation("open_refused_but_must_accept:%s:%s" % (key, err.split(":")[0]), dict(rep, error=err), rep)
            if opened:
                if mode == "w":
                    ok = (len(f.blocks) == 0 and len(f.sections) == 0 and tuple(f.version) == libver and f.format == "nix"
                          and nix.util.is_uuid(f.id))
                    if not ok:
                        ctx.violation("overwrite_not_fresh", dict(rep, blocks=len(f.blocks), sections=len(f.sections), version=list(f.version), id=str(f.id)), rep)
                elif expect and tuple(v) == libver:
                    s = snapshot.snapshot(nix, f)
                    d = snapshot.diff(base_snap, s, ignore_keys=("File:",))
                    if d:
                        ctx.violation("content_lost_on_open:%s" % mode, dict(rep, diff=d[:3]), rep)
        finally:
            if f is not None:
                try:
                    f.close()
                except Exception:
                    pass
        if not opened and mode != "r" and predicate(libver, v, "r", idk, fmt):
            # the writable open was refused, the file is readable: a read-only session opened right afterwards in the same process
            # (nothing done in between, no garbage collection asked for) is a read-only session like any other
            ro = None
            try:
                ro = nix.File.open(work, "r")
                ctx.count("readonly_sessions_after_refused_open")
                for label, call in (("create_block", lambda: ro.create_block("after_refusal", "t")),
                                    ("create_section", lambda: ro.create_section("after_refusal", "t")),
                                    ("force_updated_at", lambda: ro.force_updated_at(12345))):
                    try:
                        call()
                        ctx.violation("readonly_session_after_refused_open:mutation_accepted:%s" % label, rep, rep)
                    except Exception:
                        pass
            except Exception as e:
                ctx.violation("readonly_session_after_refused_open:open_fails_%s" % type(e).__name__, dict(rep, error=repr(e)[:200]), rep)
            finally:
                if ro is not None:
                    try:
                        ro.close()
                    except Exception:
                        pass
        gc.collect()
        if mode == "r" or not opened:
            after = sha(work)
            if after != before:
                ctx.violation("bytes_changed:%s:%s" % ("refused_open" if not opened else "readonly_open", mode), rep, rep)
        ctx.count("grid_points")
        try:
            os.remove(work)
        except OSError:
            pass
    # missing path
    if spec["i"] == 0:
        for mode in ("r", "a", "w"):
            p = env.scratch_file("c11_missing_%s.nix" % mode)
            if os.path.exists(p):
                os.remove(p)
            rep = {"part": "missing_path", "mode": mode}
            ctx.case(("missing", mode))
            try:
                f = nix.File.open(p, mode)
                f.close()
                opened = True
            except Exception:
                opened = False
            if mode == "r":
                if opened:
                    ctx.violation("missing_path_opened_readonly", rep, rep)
                if os.path.exists(p):
                    ctx.violation("missing_path_created_by_readonly_open", rep, rep)
            else:
                if not opened or not os.path.exists(p):
                    ctx.violation("missing_path_not_created:%s" % mode, rep, rep)
                else:
                    try:
                        g = nix.File.open(p, "r")
                        ok = tuple(g.version) == libver and g.format == "nix"
                        g.close()
                        if not ok:
                            ctx.violation("created_file_header_wrong:%s" % mode, rep, rep)
                    except Exception as e:
                        ctx.violation("created_file_unreadable:%s" % mode, dict(rep, error=repr(e)[:200]), rep)
    # creating opens with every option: the new file has a complete fresh header and is then a file like any other
    if spec["i"] == 2:
        k = 0
        for how in ("w_on_existing", "w_on_missing", "a_on_missing"):
            for auto in (True, False):
                for comp in (nix.Compression.Auto, nix.Compression.No, nix.Compression.DeflateNormal):
                    k += 1
                    p = env.scratch_file("c11_create_%d.nix" % k)
                    if os.path.exists(p):
                        os.remove(p)
                    if how == "w_on_existing":
                        shutil.copyfile(base, p)
                    rep = {"part": "creating_open", "how": how, "auto_update_timestamps": auto, "compression": str(comp)}
                    ctx.case(("creating_open", how, auto, str(comp)))
                    ctx.count("creating_opens")
                    try:
                        f = nix.File.open(p, "w" if how.startswith("w") else "a", compression=comp, auto_update_timestamps=auto)
                        try:
                            hdr = {"format": f.format, "version": tuple(f.version), "id_ok": bool(nix.util.is_uuid(f.id)),
                                   "created_at": f.created_at, "updated_at": f.updated_at, "blocks": len(f.blocks), "sections": len(f.sections)}
                        finally:
                            f.close()
                    except Exception as e:
                        ctx.violation("creating_open:fresh_header_incomplete_or_unreadable:%s" % type(e).__name__, dict(rep, error=repr(e)[:200]), rep)
                        continue
                    if not (hdr["format"] == "nix" and hdr["version"] == libver and hdr["id_ok"] and isinstance(hdr["created_at"], int)
                            and isinstance(hdr["updated_at"], int) and hdr["blocks"] == 0 and hdr["sections"] == 0):
                        ctx.violation("creating_open:header_wrong", dict(rep, header={a: str(b) for a, b in hdr.items()}), rep)
                    before = sha(p)
                    for mode in ("r", "a"):
                        try:
                            g = nix.File.open(p, mode)
                            got = (g.created_at, g.updated_at)
                            g.close()
                            if got != (hdr["created_at"], hdr["updated_at"]):
                                ctx.violation("creating_open:header_times_differ_after_reopen:%s" % mode, dict(rep, before=[hdr["created_at"], hdr["updated_at"]], after=list(got)), rep)
                        except Exception as e:
                            ctx.violation("creating_open:new_file_cannot_be_opened:%s:%s" % (mode, type(e).__name__), dict(rep, error=repr(e)[:200]), rep)
                        if mode == "r" and sha(p) != before:
                            ctx.violation("creating_open:readonly_open_changed_new_file", rep, rep)
    # an existing path that is not an HDF5 file at all, or a damaged one: never "missing", never to be replaced by r / a
    if spec["i"] == 1:
        with open(base, "rb") as fh:
            whole = fh.read()
        # (a zero-byte file is not among them: it holds nothing that could be lost, and the HDF5 library itself writes a
        # superblock into it when it is opened for writing - observed, not judged)
        variants = {"text_file": b"this is a lab notebook, not an HDF5 file\n" * 40,
                    "truncated_hdf5": whole[:max(600, len(whole) // 3)], "hdf5_with_damaged_superblock": b"\x00" * 16 + whole[16:]}
        for vname, content in variants.items():
            for mode in ("r", "a"):
                p = env.scratch_file("c11_%s_%s.nix" % (vname, mode))
                with open(p, "wb") as fh:
                    fh.write(content)
                before = sha(p)
                rep = {"part": "not_an_hdf5_file", "variant": vname, "mode": mode}
                ctx.case(("not_hdf5", vname, mode))
                ctx.count("not_hdf5_points")
                try:
                    f = nix.File.open(p, mode)
                    f.close()
                    ctx.violation("unreadable_file_opened:%s:%s" % (vname, mode), rep, rep)
                except Exception:
                    pass
                gc.collect()
                if not os.path.exists(p) or sha(p) != before:
                    ctx.violation("unreadable_file_replaced_or_changed:%s:%s" % (vname, mode), dict(rep, size_before=len(content),
                                  size_after=os.path.getsize(p) if os.path.exists(p) else None), rep)
                try:
                    os.remove(p)
                except OSError:
                    pass
    ctx.count("exhaustive_grid_complete")


def raw_fp(path):
    import h5py
    from .. import snapshot
    with h5py.File(path, "r") as h:
        return snapshot.raw_fingerprint(snapshot.rawscan(h))[0]


def run_sessions(ctx, nix, spec, fi):
    from .. import env, snapshot, catalog, clock
    clock.install()
    rng = ctx.rng("c11", fi)
    base = env.scratch_file("c11_ro_base_%d.nix" % ctx.shard)
    twin = env.scratch_file("c11_ro_twin_%d.nix" % ctx.shard)
    f = catalog.build_fixture(nix, base, rng, spec["extra"], compression=rng.choice(list(nix.Compression)))
    rw_snap = snapshot.snapshot(nix, f)
    f.close()
    base_sha = sha(base)
    base_raw = raw_fp(base)
    muts = catalog.mutators(nix)
    stride = spec.get("stride", 1)
    if stride > 1:
        muts = [m for j, m in enumerate(muts) if (j + fi) % stride == spec["i"] % stride]
    which = rng.randrange(2)
    # 1. classify on the writable twin
    mutating = {}
    for label, kind, member, fn in muts:
        shutil.copyfile(base, twin)
        g = nix.File.open(twin, nix.FileMode.ReadWrite)
        try:
            T = catalog.targets(nix, g, which)
            try:
                fn(T)
                raised = None
            except Exception as e:
                raised = e
            s = snapshot.snapshot(nix, g)
        finally:
            g.close()
        changed = bool(snapshot.diff(rw_snap, s, limit=1)) or raw_fp(twin) != base_raw
        mutating[label] = (changed, raised)
        if raised is not None:
            ctx.observe("catalogue_call_raises_on_writable_twin:%s:%s" % (label, type(raised).__name__), repr(raised)[:200])
    # 2. the read-only session
    ro = nix.File.open(base, nix.FileMode.ReadOnly)
    try:
        ro_snap = snapshot.snapshot(nix, ro)
        d = snapshot.diff(rw_snap, ro_snap)
        for x in d[:4]:
            ctx.violation("readonly_read_differs:%s.%s" % (x["entity"].split(":")[0], x.get("field") or x.get("change")),
                          {"part": "ro_session", "file": fi, "diff": x}, {"part": "ro", "shard": ctx.shard, "file": fi, "extra": spec["extra"]})
        for label, kind, member, fn in muts:
            changed, raised_rw = mutating[label]
            rep = {"part": "ro", "shard": ctx.shard, "file": fi, "extra": spec["extra"], "mutator": label}
            if not changed:
                ctx.count("noop_on_twin")
                ctx.case(None)
                continue
            ctx.case(("ro", kind, member), sample={"part": "read-only session", "mutator": label, "changes_writable_twin": True})
            try:
                T = catalog.targets(nix, ro, which)
                fn(T)
                ctx.violation("mutator_returns_normally_in_readonly:%s" % label, rep, rep)
            except Exception:
                ctx.count("mutators_refused")
        after = snapshot.snapshot(nix, ro)
        d = snapshot.diff(ro_snap, after)
        for x in d[:4]:
            ctx.violation("readonly_session_changed_observable_state:%s.%s" % (x["entity"].split(":")[0], x.get("field") or x.get("change")),
                          {"part": "ro_session", "file": fi, "diff": x}, {"part": "ro", "shard": ctx.shard, "file": fi, "extra": spec["extra"]})
    finally:
        try:
            ro.close()
        except Exception as e:
            ctx.observe("readonly_close_raises:%s" % type(e).__name__, repr(e)[:300])
    if sha(base) != base_sha:
        ctx.violation("bytes_changed:readonly_session", {"part": "ro_session", "file": fi}, {"part": "ro", "shard": ctx.shard, "file": fi, "extra": spec["extra"]})
    ctx.count("readonly_sessions")
    # catalogue gaps (reported, not judged)
    covered = {(k.split("(")[0], m.split("(")[0].split("=")[0]) for _, k, m, _ in catalog.mutators(nix)}
    for cls, member in sorted(catalog.discover_mutators(nix)):
        hit = any(c == cls and (mm == member or mm.endswith("." + member) or mm.startswith(member)) for c, mm in covered)
        if member == "create_new":      # internal constructors behind the public create_* methods
            continue
        if not hit and cls not in ("Container", "LinkContainer", "SourceLinkContainer"):
            ctx.observe("catalogue_gap:%s.%s" % (cls, member))


def run_shard(spec, ctx):
    from .. import env, snapshot, catalog, clock
    nix = env.import_nixio()
    clock.install()
    base = env.scratch_file("c11_base_%d.nix" % ctx.shard)
    f = catalog.build_fixture(nix, base)
    base_snap = snapshot.snapshot(nix, f)
    f.close()
    ctx.guarded("grid", run_grid, ctx, nix, spec, base, base_snap)
    for fi in range(spec["files"]):
        ctx.guarded("sessions", run_sessions, ctx, nix, spec, fi)


def replay(w, ctx):
    from .. import env, snapshot, catalog, clock
    nix = env.import_nixio()
    clock.install()
    ctx.case(("replay",))
    if w.get("part") == "ro":
        ctx.shard = w.get("shard", 0)
        run_sessions(ctx, nix, {"extra": w.get("extra", 25), "i": 0, "stride": 1}, w["file"])
        return
    base = env.scratch_file("c11_replay.nix")
    f = catalog.build_fixture(nix, base)
    f.close()
    if w.get("part") == "grid":
        libver = tuple(nix.file.HDF_FF_VERSION)
        patch_header(base, tuple(w["version"]), w["id"], w["format"])
        expect = predicate(libver, tuple(w["version"]), w["mode"], w["id"], w["format"])
        try:
            g = nix.File.open(base, w["mode"])
            g.close()
            opened = True
        except Exception:
            opened = False
        if opened != expect:
            ctx.violation("replay:open_outcome", dict(w, opened=opened, expected=expect), w)
