"""C10 - metadata properties hold typed value lists; sections behave like ordered dicts.

Oracle: a typed-list model per property (type fixed at creation; assign replaces, extend appends, three ways
of clearing) compared bit-exactly with Property.values after every step, through a randomly chosen handle
(creation result, props[name], props[id], props[i]) and after reopening RO/RW; candidates of another type
or of mixed types (faulty element at every position) must raise TypeError and leave every property of the
file as it was; the dictionary-style view of the section (lookup, assignment, deletion, membership, length,
iteration, items) must agree with the model's ordered properties and subsections.
"""
import math

ID = "C10"
LEVEL = "exploration"
TECHNIQUE = ("runtime reference-model monitor: typed-list model per property and ordered-dict model per section, compared "
             "with every read path after every create/assign/extend/clear/dict-style/refused step and after reopen")
RULE = ("Case = one section (0-2 subsections, 1-4 properties of the four value types) driven through 2-12 steps from "
        "{assign, extend, clear (None | [] | delete_values), wrong-type candidate (list, tuple or one NumPy array of any width), mixed-type candidate with the odd "
        "element at a chosen position, dict-style set/get/del, create/delete property, create subsection, optional "
        "attributes, reopen RO/RW}; after every step all properties' values (order, type class, bit-exact floats) and "
        "the dict view are compared with the model.  Distinct by (value type, ordered step kinds, faulty-position "
        "class, reopened); trivial = cases with fewer than 2 executed steps.")
ASSUMPTIONS = ["the four value types are bool, integer (stored as 64-bit), floating point (double) and text; numpy scalars "
               "count as their Python class (np.int32 -> integer, np.float32 -> floating point, np.bool_ -> boolean)",
               "True/False among integers, and integers among floats, are 'mixed types' (that is how the type of a value is "
               "defined by the library's own DataType.get_dtype) and must be refused",
               "len(section) counts properties; iteration/items yield properties, then subsections, in creation order (A4)",
               "assigning the bare empty string (not in a list) clears the values, like None and [] (A21; asserted by the repository's own test_empties)",
               "candidates that are of none of the four types (None, complex, containers) and integers beyond 64 bits are "
               "not judged (side channel)"]

NSHARDS = 16
PY = {"int": int, "float": float, "str": str, "bool": bool}
INTS = [0, 1, -1, 2 ** 63 - 1, -2 ** 63, 7, -300000, 2 ** 31, 255]
FLOATS = [0.5, -0.0, float("nan"), float("inf"), float("-inf"), 5e-324, 1.7976931348623157e308, 2.5, 1.25, 1e-7, 0.1]
STRS = ["", "a", "üñí ∂", "x y", "long" * 40, "0", "True", "1.5", "\t", "a/b",
        # text that is not in a Unicode normal form (it must come back code point for code point): combining sequence, OHM / ANGSTROM /
        # KELVIN SIGN, conjoining jamo, compatibility ideograph and ligature, marks in non-canonical order, an astral character
        "Cafe\u0301", "\u2126", "\u212b", "\u212a", "\u1112\u1161\u11ab", "\uf900", "\ufb01n", "a\u0323\u0307", "a\u0307\u0323", "\U0001f9ea", " lead", "trail "]
BOOLS = [True, False]


def plan(tier, seed):
    n = 110 if tier == "quick" else 1500
    return [{"i": i, "cases": n} for i in range(NSHARDS)]


def gen_value(rng, t, np):
    if t == "int":
        v = rng.choice(INTS + [rng.randint(-10 ** 6, 10 ** 6)])
        r = rng.random()
        if r < 0.1 and -2 ** 31 <= v < 2 ** 31:
            return np.int32(v)
        if r < 0.2:
            return np.int64(v)
        return v
    if t == "float":
        v = rng.choice(FLOATS + [rng.uniform(-1e3, 1e3)])
        r = rng.random()
        if r < 0.1 and v in (0.5, 2.5, 1.25, -0.0):
            return np.float32(v)
        if r < 0.2:
            return np.float64(v)
        return v
    if t == "str":
        return rng.choice(STRS)
    v = rng.choice(BOOLS)
    return np.bool_(v) if rng.random() < 0.2 else v


def norm(t, v):
    """model value = plain Python value of the property's type"""
    return PY[t](v)


def type_ok(t, v, np):
    if t == "int":
        return isinstance(v, (int, np.integer)) and not isinstance(v, (bool, np.bool_))
    if t == "float":
        return isinstance(v, (float, np.floating))
    if t == "str":
        return isinstance(v, str)
    return isinstance(v, (bool, np.bool_))


def same(t, a, b):
    if t == "float":
        a, b = float(a), float(b)
        if math.isnan(a) or math.isnan(b):
            return math.isnan(a) and math.isnan(b)
        return a == b and math.copysign(1, a) == math.copysign(1, b)
    return PY[t](a) == b


def show(vals):
    return [repr(x)[:40] for x in list(vals)[:6]]


class Case:
    def __init__(self, ctx, nix, np, path, rng, rep):
        self.ctx, self.nix, self.np, self.path, self.rng, self.rep = ctx, nix, np, path, rng, rep
        self.props = []       # ordered: [name, type, model list, id]
        self.subs = []        # ordered subsection names
        self.steps = []
        self.fault_pos = set()
        self.reopened = False
        self.handles = {}

    # ---- access --------------------------------------------------------------------------
    def prop(self, ent):
        """Fetch the property through a random access path."""
        name, t, model, pid = ent
        how = self.rng.choice(["cached", "name", "id", "index", "negindex"])
        self.ctx.count("handle_via_" + how)
        props = self.sec.props
        if how == "cached" and name in self.handles:
            return self.handles[name]
        if how == "id":
            return props[pid]
        if how in ("index", "negindex"):
            i = [e[0] for e in self.props].index(name)
            return props[i] if how == "index" else props[i - len(self.props)]
        return props[name]

    def viol(self, mech, detail):
        self.ctx.violation(mech, dict(detail, steps=self.steps[-8:], case=self.rep), dict(self.rep, upto=len(self.steps)))

    # ---- oracle ---------------------------------------------------------------------------
    def check_all(self, after):
        np, sec = self.np, self.sec
        for ent in self.props:
            name, t, model, pid = ent
            try:
                p = self.prop(ent)
                got = p.values
            except Exception as e:
                self.viol("values:read_raises_%s:after_%s:%s" % (type(e).__name__, after, t), {"property": name, "error": repr(e)[:200]})
                continue
            self.ctx.count("value_list_comparisons")
            if len(got) != len(model):
                self.viol("values:wrong_length:after_%s:%s" % (after, t), {"property": name, "got": show(got), "expected": show(model)})
            elif not all(type_ok(t, g, np) for g in got):
                self.viol("values:wrong_type_class:after_%s:%s" % (after, t), {"property": name, "got": show(got), "types": [type(g).__name__ for g in got][:6]})
            elif not all(same(t, g, m) for g, m in zip(got, model)):
                self.viol("values:wrong_values:after_%s:%s" % (after, t), {"property": name, "got": show(got), "expected": show(model)})
            if p.id != pid:
                self.viol("property_id_changed:after_%s" % after, {"property": name, "was": pid, "now": p.id})
            if p.name != name:
                self.viol("handle_is_other_property:after_%s" % after, {"asked": name, "got": p.name})
        # dict view
        self.ctx.count("dict_view_comparisons")
        names = [e[0] for e in self.props]
        try:
            if len(sec) != len(names):
                self.viol("dict:len:after_%s" % after, {"got": len(sec), "expected": len(names)})
            items = [(k, type(v).__name__) for k, v in sec.items()]
            exp = [(n, "Property") for n in names] + [(n, "Section") for n in self.subs]
            if items != exp:
                self.viol("dict:items:after_%s" % after, {"got": items[:8], "expected": exp[:8]})
            it = [getattr(x, "name", None) for x in sec]
            if it != names + self.subs:
                self.viol("dict:iter:after_%s" % after, {"got": it[:8], "expected": (names + self.subs)[:8]})
            if [p.name for p in sec.props] != names:
                self.viol("dict:props_order:after_%s" % after, {"got": [p.name for p in sec.props][:8], "expected": names[:8]})
            for n in names + self.subs:
                if n not in sec:
                    self.viol("dict:contains_false_for_member:after_%s" % after, {"key": n})
            for n in ("nope", "zz-absent"):
                if n in sec:
                    self.viol("dict:contains_true_for_absent:after_%s" % after, {"key": n})
                try:
                    sec[n]
                    self.viol("dict:getitem_absent_returns:after_%s" % after, {"key": n})
                except KeyError:
                    pass
                except Exception as e:
                    self.ctx.observe("dict_getitem_absent_raises:%s" % type(e).__name__)
            for name, t, model, pid in self.props:
                got = sec[name]
                gl = got if isinstance(got, list) else [got]
                if (len(model) == 1) != (not isinstance(got, list)) and len(model) != 1:
                    pass
                if len(model) == 1 and isinstance(got, list):
                    self.viol("dict:getitem_single_not_scalar:after_%s" % after, {"key": name, "got": show(got)})
                elif len(gl) != len(model) or not all(same(t, g, m) for g, m in zip(gl, model)):
                    self.viol("dict:getitem_values:after_%s:%s" % (after, t), {"key": name, "got": show(gl), "expected": show(model)})
            for n in self.subs:
                if n in names:
                    continue
                got = sec[n]
                if type(got).__name__ != "Section" or got.name != n:
                    self.viol("dict:getitem_subsection:after_%s" % after, {"key": n, "got": repr(got)[:80]})
        except Exception as e:
            from ..core import raised_in_library, short_trace
            if raised_in_library(e):
                self.viol("dict:view_raises_%s:after_%s" % (type(e).__name__, after), {"error": repr(e)[:200], "trace": short_trace(e)})
            else:
                raise

    # ---- steps ----------------------------------------------------------------------------
    def new_name(self, kind="prop"):
        """Names are unique per kind; properties and subsections live in separate name spaces, so a property and a
        subsection may share a name (then dictionary-style lookup, like assignment and deletion, addresses the property)."""
        base = self.rng.choice(["p", "zz", "aa", "ü", "x y", "P", "0", "values"])
        mine = {e[0] for e in self.props} if kind == "prop" else set(self.subs)
        other = set(self.subs) if kind == "prop" else {e[0] for e in self.props}
        free = sorted(other - mine)
        if free and self.rng.random() < 0.35:
            self.ctx.count("same_name_for_property_and_subsection")
            return self.rng.choice(free)
        n, i = base, 0
        taken = mine | other
        while n in taken:
            i += 1
            n = "%s%d" % (base, i)
        return n

    def create(self, how=None):
        nix, rng, np = self.nix, self.rng, self.np
        t = rng.choice(list(PY))
        name = self.new_name()
        DT = {"int": nix.DataType.Int64, "float": nix.DataType.Double, "str": nix.DataType.String, "bool": nix.DataType.Bool}[t]
        how = how or rng.choice(["values", "values", "dtype", "dict", "scalar", "nparray"])
        if how == "dtype":
            p = self.sec.create_property(name, DT)
            model = []
        elif how == "scalar":
            v = gen_value(rng, t, np)
            while t == "str" and v == "":       # A21: a bare "" is "no value" and is refused at creation like []
                v = gen_value(rng, t, np)
            p = self.sec.create_property(name, v)
            model = [norm(t, v)]
        elif how == "dict":
            vals = [gen_value(rng, t, np) for _ in range(rng.randint(1, 4))]
            self.sec[name] = vals if len(vals) > 1 or rng.random() < 0.5 else vals[0]
            p = self.sec.props[name]
            model = [norm(t, v) for v in vals]
        elif how == "nparray" and t != "str":
            vals = [gen_value(rng, t, np) for _ in range(rng.randint(1, 5))]
            arr = np.array([norm(t, v) for v in vals], dtype={"int": np.int64, "float": np.float64, "bool": np.bool_}[t])
            p = self.sec.create_property(name, list(arr))
            model = [norm(t, v) for v in vals]
        else:
            vals = [gen_value(rng, t, np) for _ in range(rng.randint(1, 8))]
            p = self.sec.create_property(name, rng.choice([vals, tuple(vals)]))
            model = [norm(t, v) for v in vals]
        ent = [name, t, model, p.id]
        self.props.append(ent)
        self.handles[name] = p
        dt = p.data_type
        if np.dtype(dt) != np.dtype({"int": np.int64, "float": np.float64, "str": nix.DataType.String, "bool": np.bool_}[t]) and not (t == "str" and dt == nix.DataType.String):
            self.viol("data_type_wrong_at_creation:%s" % t, {"got": repr(dt)})
        return "create_%s" % how, t

    def other_type_candidate(self, t, mixed, arrays=False):
        rng, np = self.rng, self.np
        ot = rng.choice([x for x in PY if x != t])
        n = rng.randint(2, 5) if mixed else rng.randint(1, 4)
        if mixed:
            pos = rng.choice([0, n - 1, rng.randrange(n)])
            cand = [gen_value(rng, t, np) for _ in range(n)]
            cand[pos] = gen_value(rng, ot, np)
            pc = "first" if pos == 0 else ("last" if pos == n - 1 else "middle")
        else:
            cand = [gen_value(rng, ot, np) for _ in range(n)]
            pc = "all"
            if arrays and rng.random() < 0.35:
                # (Property.values / extend_values take arrays; dictionary-style assignment takes a list or one value)
                # the same values handed over as one NumPy array of the other kind (any width)
                dts = {"int": [np.int64, np.int32, np.uint8, np.int16], "float": [np.float64, np.float32], "bool": [np.bool_], "str": [None]}[ot]
                try:
                    dt = rng.choice(dts)
                    if ot == "int" and dt is not np.int64:
                        cand = [int(v) % 100 for v in cand]
                    arr = np.array([norm(ot, v) for v in cand]) if dt is None else np.array([norm(ot, v) for v in cand], dtype=dt)
                    if arr.dtype.kind in {"int": "iu", "float": "f", "bool": "b", "str": "U"}[ot] and not (ot == "float" and not np.all(np.isfinite(arr))):
                        cand, pc = arr, "all_as_array"
                except Exception:
                    pass
        return ot, cand, pc

    def step(self):
        nix, rng, np, sec = self.nix, self.rng, self.np, self.sec
        kinds = ["assign", "extend", "clear", "bad_assign", "bad_extend", "bad_create", "dict_set", "dict_del", "create",
                 "delete", "subsection", "attrs", "reopen", "np_assign", "dict_bad"]
        weights = [3, 3, 1.2, 2, 2, 0.7, 1.5, 0.5, 1, 0.4, 0.4, 0.8, 1, 0.6, 0.8]
        op = rng.choices(kinds, weights)[0]
        if not self.props and op not in ("create", "subsection", "reopen", "bad_create"):
            op = "create"
        ent = rng.choice(self.props) if self.props else None
        t = ent[1] if ent else None
        label = op
        if op == "create":
            if len(self.props) >= 5:
                return None
            label, t = self.create()
        elif op == "assign":
            new = [gen_value(rng, t, np) for _ in range(rng.randint(1, 6))]
            single = len(new) == 1 and rng.random() < 0.5
            self.prop(ent).values = new[0] if single else rng.choice([new, tuple(new)])
            ent[2] = [norm(t, v) for v in new]
            if single and t == "str" and new[0] == "":
                # A21: the bare empty string counts as "no values" (the repository's test_empties asserts exactly this)
                ent[2] = []
                label = "assign_bare_empty_string"
        elif op == "np_assign":
            if t == "str":
                return None
            new = [norm(t, gen_value(rng, t, np)) for _ in range(rng.randint(1, 5))]
            arr = np.array(new, dtype={"int": np.int64, "float": np.float64, "bool": np.bool_}[t])
            if rng.random() < 0.5:
                self.prop(ent).values = arr
                ent[2] = list(new)
            else:
                self.prop(ent).extend_values(arr)
                ent[2] = ent[2] + list(new)
        elif op == "extend":
            new = [gen_value(rng, t, np) for _ in range(rng.randint(1, 4))]
            self.prop(ent).extend_values(rng.choice([new, tuple(new)]))
            ent[2] = ent[2] + [norm(t, v) for v in new]
        elif op == "clear":
            k = rng.choice(["none", "empty", "delete_values"])
            p = self.prop(ent)
            if k == "none":
                p.values = None
            elif k == "empty":
                p.values = []
            else:
                p.delete_values()
            ent[2] = []
            label = "clear_" + k
        elif op in ("bad_assign", "bad_extend", "dict_bad"):
            mixed = rng.random() < 0.6
            ot, cand, pc = self.other_type_candidate(t, mixed, arrays=op != "dict_bad")
            self.fault_pos.add(pc)
            label = "%s_%s" % (op, "mixed" if mixed else "pure")
            p = self.prop(ent)
            try:
                if op == "bad_assign":
                    p.values = cand
                elif op == "bad_extend":
                    p.extend_values(cand)
                else:
                    sec[ent[0]] = cand
                self.viol("wrong_type_accepted:%s:%s_into_%s:odd_element_%s" % (op, ot, t, pc), {"property": ent[0], "candidate": show(cand)})
                # resynchronise the model with whatever happened so that one acceptance is reported once
                ent[2] = None
            except TypeError:
                self.ctx.count("refusals_with_TypeError")
            except Exception as e:
                self.viol("wrong_type_refused_with_%s:%s:%s_into_%s:odd_element_%s" % (type(e).__name__, op, ot, t, pc),
                          {"property": ent[0], "candidate": show(cand), "error": repr(e)[:200]})
            if ent[2] is None:
                self.props.remove(ent)
                try:
                    del sec.props[ent[0]]
                except Exception:
                    pass
        elif op == "bad_create":
            t = rng.choice(list(PY))
            ot, cand, pc = self.other_type_candidate(t, True)
            self.fault_pos.add(pc)
            name = self.new_name()
            try:
                if rng.random() < 0.5:
                    sec.create_property(name, cand)
                else:
                    sec[name] = cand
                self.viol("mixed_types_accepted_at_creation:%s_with_%s:odd_element_%s" % (t, ot, pc), {"candidate": show(cand)})
                del sec.props[name]
            except TypeError:
                self.ctx.count("refusals_with_TypeError")
            except Exception as e:
                self.viol("mixed_types_at_creation_refused_with_%s:%s_with_%s" % (type(e).__name__, t, ot), {"candidate": show(cand), "error": repr(e)[:200]})
            if name in sec.props:
                self.viol("refused_creation_left_property:%s_with_%s" % (t, ot), {"name": name})
                del sec.props[name]
        elif op == "dict_set":
            new = [gen_value(rng, t, np) for _ in range(rng.randint(1, 4))]
            sec[ent[0]] = new if len(new) > 1 or rng.random() < 0.5 else new[0]
            ent[2] = [norm(t, v) for v in new]
        elif op == "dict_del":
            del sec[ent[0]]
            self.props.remove(ent)
            self.handles.pop(ent[0], None)
        elif op == "delete":
            key = rng.choice([ent[0], ent[3], [e[0] for e in self.props].index(ent[0])])
            del sec.props[key]
            self.props.remove(ent)
            self.handles.pop(ent[0], None)
        elif op == "subsection":
            if len(self.subs) >= 3:
                return None
            n = self.new_name("sub")
            sec.create_section(n, "sub")
            self.subs.append(n)
        elif op == "attrs":
            p = self.prop(ent)
            for a, pool in (("unit", [None, "mV", " m V", "µs", ""]), ("definition", [None, "", "ü def"]), ("uncertainty", [None, 0.5, 1, 0.0]),
                            ("reference", [None, "r", "ü"]), ("dependency", [None, "d"]), ("dependency_value", [None, "dv", ""]),
                            ("value_origin", [None, "vo ü"])):
                v = rng.choice(pool)
                setattr(p, a, v)
                e = v
                if a == "unit":
                    e = None if not v else v.replace(" ", "").replace("µ", "u")
                if a == "uncertainty" and v is not None:
                    e = float(v)
                self.attr_model.setdefault(ent[3], {})[a] = e
        elif op == "reopen":
            self.f.close()
            mode = rng.choice([nix.FileMode.ReadOnly, nix.FileMode.ReadWrite])
            self.f = nix.File.open(self.path, mode)
            self.sec = self.f.sections["s"]
            self.handles = {}
            self.reopened = True
            self.check_all("reopen_" + ("ro" if mode == nix.FileMode.ReadOnly else "rw"))
            self.check_attrs("reopen")
            if mode == nix.FileMode.ReadOnly:
                self.f.close()
                self.f = nix.File.open(self.path, nix.FileMode.ReadWrite)
                self.sec = self.f.sections["s"]
        self.steps.append(label if t is None else "%s[%s]" % (label, t))
        self.kinds.append(label)
        return label

    def check_attrs(self, after):
        for pid, attrs in self.attr_model.items():
            ents = [e for e in self.props if e[3] == pid]
            if not ents:
                continue
            p = self.prop(ents[0])
            name = ents[0][0]
            for a, e in attrs.items():
                g = getattr(p, a)
                self.ctx.count("attribute_comparisons")
                if g != e or (e is not None and type(g) is not type(e) and not isinstance(g, type(e))):
                    self.viol("attr:%s:after_%s" % (a, after), {"property": name, "expected": repr(e), "got": repr(g)})

    def run(self, upto=None):
        nix, rng = self.nix, self.rng
        from .. import clock
        clock.install()
        self.f = nix.File.open(self.path, nix.FileMode.Overwrite)
        self.kinds = []
        self.attr_model = {}
        try:
            self.sec = self.f.create_section("s", "t")
            for _ in range(rng.randint(0, 2)):
                n = self.new_name("sub")
                self.sec.create_section(n, "sub")
                self.subs.append(n)
            for _ in range(rng.randint(1, 3)):
                self.create()
            self.check_all("create")
            n = rng.randint(2, 12)
            for i in range(n):
                if upto is not None and len(self.steps) >= upto:
                    break
                label = self.step()
                if label is None:
                    continue
                self.check_all(label)
                if label == "attrs":
                    self.check_attrs("set")
            self.f.close()
            self.f = nix.File.open(self.path, nix.FileMode.ReadOnly)
            self.sec = self.f.sections["s"]
            self.handles = {}
            self.check_all("final_reopen")
            self.check_attrs("final_reopen")
        finally:
            try:
                self.f.close()
            except Exception:
                pass


def run_shard(spec, ctx):
    import numpy as np
    from .. import env
    nix = env.import_nixio()
    path = env.scratch_file("c10_%d.nix" % ctx.shard)
    for k in range(spec["cases"]):
        rep = {"case": k, "shard": ctx.shard}
        c = Case(ctx, nix, np, path, ctx.rng("c10", k), rep)
        ctx.guarded("case", c.run)
        kinds = getattr(c, "kinds", [])
        if len(kinds) >= 2:
            types = tuple(sorted({e[1] for e in c.props}))
            ctx.case((types, tuple(kinds), tuple(sorted(c.fault_pos)), c.reopened),
                     sample={"initial_and_steps": c.steps[:14], "final_model": {e[0]: [e[1], show(e[2])] for e in c.props}, "subsections": c.subs})
        else:
            ctx.case(None)
        ctx.count("steps", len(kinds))


def replay(w, ctx):
    import numpy as np
    from .. import env
    nix = env.import_nixio()
    ctx.shard = w.get("shard", 0)
    ctx.case(("replay",))
    Case(ctx, nix, np, env.scratch_file("c10_replay.nix"), ctx.rng("c10", w["case"]), w).run(w.get("upto"))
