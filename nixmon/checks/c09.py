"""C09 - SI unit recognition and scaling are exact and consistent.

Oracle: the SI tables restated here with integer exponents; every expected value
is an exact power of ten.  The atomic space (prefix x unit x power) is enumerated
completely on both tiers; compositions, compounds, sanitiser inputs and
non-unit strings are sampled.
"""
import itertools
import math

ID = "C09"
LEVEL = "exploration"
EXHAUSTIVE = True
TECHNIQUE = "runtime oracle on the real functions: exhaustive enumeration of the atomic unit space against restated SI tables (exact powers of ten) + sampled algebraic laws"
RULE = ("Exhaustive: every (prefix1, prefix2, unit, power) with 21 prefixes (incl. none), 31 unit symbols, 8 power "
        "spellings -> scalable/scaling judged against 10^((e1-e2)*power), evaluated in an order drawn per unit and shard, plus the same power spelled "
        "differently on the two sides ('' = '1', '2' = '+2'); every prefix+unit+power string -> "
        "is_atomic/is_si/split judged against its construction recipe.  Sampled: composition/inversion triples, "
        "cross-unit and cross-power pairs, compounds of 2-4 atomics, sanitiser strings over a 13-letter alphabet, "
        "non-unit strings.  A case is distinct by (law, prefix-emptiness pattern, unit, power) resp. (law, string); "
        "trivial = identical strings for scaling (counted but not distinct).")
ASSUMPTIONS = ["the supported SI tables are the 20 prefixes and 31 unit symbols of nixio 1.5 (restated in the oracle)",
               "relative tolerance 1e-12 on scaling factors (all expected values are exact powers of ten)"]

PREF = {"": 0, "Y": 24, "Z": 21, "E": 18, "P": 15, "T": 12, "G": 9, "M": 6, "k": 3, "h": 2, "da": 1,
        "d": -1, "c": -2, "m": -3, "u": -6, "n": -9, "p": -12, "f": -15, "a": -18, "z": -21, "y": -24}
UNITS = ["m", "g", "s", "A", "K", "mol", "cd", "Hz", "N", "Pa", "J", "W", "C", "V", "F", "S", "Wb", "T", "H",
         "lm", "lx", "Bq", "Gy", "Sv", "kat", "l", "L", "Ohm", "%", "dB", "rad"]
POW = ["", "1", "2", "3", "-1", "-2", "-3", "+2"]
LAYER_B = ['C09']      # monitors of nixmon/passive/plugin.py run over the repository's own tests in the thorough tier
NSHARDS = 16


def mk(p, u, w):
    return p + u + ("^" + w if w else "")


def pw(w):
    return int(w) if w else 1


def ambiguous():
    table = {}
    for p in PREF:
        for u in UNITS:
            table.setdefault(p + u, []).append((p, u))
    return {k for k, v in table.items() if len(v) > 1}


def plan(tier, seed):
    return [{"units": UNITS[i::NSHARDS], "n_rand": (4000 if tier == "quick" else 60000)} for i in range(NSHARDS)]


def pattern(p1, p2):
    return ("P" if p1 else "-") + ("P" if p2 else "-")


def check_scaling_pair(units, ctx, a, b, p1, p2, u, w, InvalidUnit):
    exp = 10.0 ** ((PREF[p1] - PREF[p2]) * pw(w))
    ctx.case(("scaling", pattern(p1, p2), u, w) if a != b else None)
    try:
        sc = units.scalable(a, b)
    except Exception as e:
        ctx.violation("scalable_raises:%s" % type(e).__name__, {"a": a, "b": b, "err": repr(e)}, {"kind": "pair", "a": a, "b": b})
        return
    if not sc:
        ctx.violation("not_scalable:%s" % u, {"a": a, "b": b}, {"kind": "pair", "a": a, "b": b, "expect": exp})
        return
    try:
        got = units.scaling(a, b)
    except Exception as e:
        ctx.violation("scaling_raises:%s:%s" % (pattern(p1, p2), type(e).__name__), {"a": a, "b": b, "err": repr(e)},
                      {"kind": "pair", "a": a, "b": b, "expect": exp})
        return
    if not (isinstance(got, (int, float)) and math.isclose(got, exp, rel_tol=1e-12)):
        ctx.violation("scaling_wrong:%s:%s" % (pattern(p1, p2), "pow" if w else "nopow"),
                      {"origin": a, "destination": b, "expected": exp, "got": got},
                      {"kind": "pair", "a": a, "b": b, "expect": exp})


def run_shard(spec, ctx):
    from .. import env
    env.import_nixio()
    from nixio.util import units
    from nixio.exceptions import InvalidUnit
    rng = ctx.rng("c09")
    amb = ambiguous()
    ctx.count("ambiguous_strings", len(amb))
    plist = list(PREF)
    # ---- exhaustive atomic recognition / split ---------------------------------
    for u in spec["units"]:
        for p in PREF:
            for w in POW:
                s = mk(p, u, w)
                if p + u in amb:
                    ctx.count("skipped_ambiguous")
                    continue
                ctx.case(("atomic", bool(p), u, w))
                rep = {"kind": "atomic", "s": s, "expect": [p, u, w]}
                try:
                    if not units.is_atomic(s):
                        ctx.violation("not_atomic:%s" % u, {"s": s}, rep)
                    if not units.is_si(s):
                        ctx.violation("not_si:%s" % u, {"s": s}, rep)
                    got = tuple(units.split(s))
                except Exception as e:
                    ctx.violation("recognition_raises:%s" % type(e).__name__, {"s": s, "err": repr(e)}, rep)
                    continue
                if got != (p, u, w):
                    ctx.violation("split_wrong:%s:%s" % (u, "prefixed" if p else "bare"),
                                  {"s": s, "expected": [p, u, w], "got": list(got)}, rep)
        ctx.count("atomic_strings_enumerated", len(PREF) * len(POW))
        # ---- exhaustive scaling grid --------------------------------------------
        # (in an order drawn per unit and shard: a conversion must not depend on which conversions were asked for before it)
        combos = [(w, p1, p2) for w in POW for p1, p2 in itertools.product(plist, plist)]
        rng.shuffle(combos)
        for w, p1, p2 in combos:
            a, b = mk(p1, u, w), mk(p2, u, w)
            if p1 + u in amb or p2 + u in amb:
                ctx.count("skipped_ambiguous")
                continue
            check_scaling_pair(units, ctx, a, b, p1, p2, u, w, InvalidUnit)
        ctx.count("scaling_pairs_enumerated", len(POW) * len(plist) ** 2)
        # the same power spelled differently ("" = "1", "2" = "+2") is the same power
        for w1, w2 in (("", "1"), ("1", ""), ("2", "+2"), ("+2", "2")):
            for p1, p2 in itertools.product(plist, plist):
                if p1 + u in amb or p2 + u in amb:
                    continue
                a, b = mk(p1, u, w1), mk(p2, u, w2)
                exp = 10.0 ** ((PREF[p1] - PREF[p2]) * pw(w1))
                ctx.case(("respelled_power", pattern(p1, p2), u, w1, w2))
                rep = {"kind": "pair", "a": a, "b": b, "expect": exp}
                try:
                    if not units.scalable(a, b):
                        ctx.violation("not_scalable:same_power_spelled_differently", {"a": a, "b": b}, rep)
                        continue
                    got = units.scaling(a, b)
                    if not math.isclose(got, exp, rel_tol=1e-12):
                        ctx.violation("scaling_wrong:same_power_spelled_differently", {"a": a, "b": b, "expected": exp, "got": got}, rep)
                except Exception as e:
                    ctx.violation("scaling_raises:same_power_spelled_differently:%s" % type(e).__name__, {"a": a, "b": b, "err": repr(e)}, rep)
    ctx.count("exhaustive_grid_complete")
    # ---- sampled laws ---------------------------------------------------------------
    n = spec["n_rand"]
    for _ in range(n):           # cross-unit / cross-power pairs are not scalable, conversion refused
        u1, u2 = rng.choice(UNITS), rng.choice(UNITS)
        w1, w2 = rng.choice(POW), rng.choice(POW)
        p1, p2 = rng.choice(plist), rng.choice(plist)
        if u1 == u2 and pw(w1) == pw(w2):
            continue
        if p1 + u1 in amb or p2 + u2 in amb:
            continue
        a, b = mk(p1, u1, w1), mk(p2, u2, w2)
        ctx.case(("cross", u1 == u2, pattern(p1, p2), bool(w1), bool(w2)))
        rep = {"kind": "cross", "a": a, "b": b}
        try:
            if units.scalable(a, b):
                ctx.violation("scalable_different:%s" % ("unit" if u1 != u2 else "power"), {"a": a, "b": b}, rep)
                continue
        except Exception as e:
            ctx.violation("scalable_raises:%s" % type(e).__name__, {"a": a, "b": b, "err": repr(e)}, rep)
            continue
        try:
            r = units.scaling(a, b)
            ctx.violation("scaling_not_refused:%s" % ("unit" if u1 != u2 else "power"), {"a": a, "b": b, "got": r}, rep)
        except Exception:
            pass
    for _ in range(n):           # composition and inversion
        u, w = rng.choice(UNITS), rng.choice(POW)
        ps = [rng.choice(plist) for _ in range(3)]
        if any(p + u in amb for p in ps):
            continue
        a, b, c = [mk(p, u, w) for p in ps]
        ctx.case(("compose", tuple(bool(p) for p in ps), u, w))
        rep = {"kind": "compose", "a": a, "b": b, "c": c}
        try:
            ab, bc, ac, ba = units.scaling(a, b), units.scaling(b, c), units.scaling(a, c), units.scaling(b, a)
        except Exception as e:
            ctx.violation("compose_raises:%s" % type(e).__name__, {"a": a, "b": b, "c": c, "err": repr(e)}, rep)
            continue
        if not math.isclose(ab * bc, ac, rel_tol=1e-12):
            ctx.violation("compose_wrong", {"a": a, "b": b, "c": c, "ab*bc": ab * bc, "ac": ac}, rep)
        if not math.isclose(ab * ba, 1.0, rel_tol=1e-12):
            ctx.violation("invert_wrong", {"a": a, "b": b, "ab*ba": ab * ba}, rep)
    for _ in range(n // 4):      # compounds
        k = rng.randint(2, 4)
        parts = [mk(rng.choice(plist), rng.choice(UNITS), rng.choice(POW)) for _ in range(k)]
        s = parts[0]
        ops = []
        for q in parts[1:]:
            o = rng.choice("*/")
            ops.append(o)
            s += o + q
        ctx.case(("compound", k, tuple(ops)))
        rep = {"kind": "compound", "s": s}
        try:
            if not units.is_compound(s):
                ctx.violation("not_compound", {"s": s}, rep)
            if not units.is_si(s):
                ctx.violation("compound_not_si", {"s": s}, rep)
        except Exception as e:
            ctx.violation("recognition_raises:%s" % type(e).__name__, {"s": s, "err": repr(e)}, rep)
        # a product / quotient is not a scalable version of one of its own factors (nor of anything atomic)
        atom = rng.choice(parts + [mk(rng.choice(plist), rng.choice(UNITS), rng.choice(POW))])
        for a, b in ((s, atom), (atom, s)):
            ctx.count("compound_vs_atomic_pairs")
            try:
                if units.scalable(a, b):
                    ctx.violation("compound_scalable_with_atomic:%s" % ("first_factor" if atom == parts[0] else "other"), {"a": a, "b": b}, rep)
                    continue
            except Exception:
                continue
            try:
                r = units.scaling(a, b)
                ctx.violation("compound_scaling_not_refused", {"a": a, "b": b, "got": r}, rep)
            except Exception:
                pass
    alpha = [" ", "m", "u", "µ", "μ", "V", "s", "k", "/", "*", "^", "1", "2"]
    for _ in range(n * 2):       # sanitiser idempotence
        s = "".join(rng.choice(alpha) for _ in range(rng.randint(0, 7)))
        ctx.case(("sanitizer", s))
        rep = {"kind": "sanitizer", "s": s}
        try:
            t = units.sanitizer(s)
            tt = units.sanitizer(t)
        except Exception as e:
            ctx.violation("sanitizer_raises:%s" % type(e).__name__, {"s": s, "err": repr(e)}, rep)
            continue
        if tt != t:
            ctx.violation("sanitizer_not_idempotent", {"s": s, "once": t, "twice": tt}, rep)
        if " " in t or "µ" in t or "μ" in t:
            ctx.violation("sanitizer_incomplete", {"s": s, "once": t}, rep)
    junk = ["x", "q", "e", "2", "^", "*", "/", " ", "Q", "_", "7"]
    for _ in range(n // 2):      # non-unit strings are never scalable
        s = "".join(rng.choice(junk) for _ in range(rng.randint(0, 6)))
        other = rng.choice(["mV", "s", s, "kHz^2", ""])
        ctx.case(("nonunit", len(s), other == s))
        rep = {"kind": "nonunit", "a": s, "b": other}
        for a, b in ((s, other), (other, s)):
            try:
                if units.scalable(a, b):
                    ctx.violation("nonunit_scalable", {"a": a, "b": b}, rep)
                    continue
            except Exception:
                continue
            try:
                r = units.scaling(a, b)
                ctx.violation("nonunit_scaling_not_refused", {"a": a, "b": b, "got": r}, rep)
            except Exception:
                pass


def replay(w, ctx):
    from .. import env
    env.import_nixio()
    from nixio.util import units
    from nixio.exceptions import InvalidUnit
    k = w["kind"]
    ctx.case(("replay", k))
    if k == "pair":
        got = None
        try:
            got = units.scaling(w["a"], w["b"]) if units.scalable(w["a"], w["b"]) else "not scalable"
        except Exception as e:
            got = repr(e)
        if not (isinstance(got, float) and math.isclose(got, w["expect"], rel_tol=1e-12)):
            ctx.violation("replay:pair", {"a": w["a"], "b": w["b"], "expected": w["expect"], "got": got}, w)
    elif k == "atomic":
        got = list(units.split(w["s"]))
        if got != w["expect"] or not units.is_atomic(w["s"]):
            ctx.violation("replay:atomic", {"s": w["s"], "expected": w["expect"], "got": got}, w)
    elif k == "sanitizer":
        t = units.sanitizer(w["s"])
        if units.sanitizer(t) != t:
            ctx.violation("replay:sanitizer", {"s": w["s"], "once": t, "twice": units.sanitizer(t)}, w)
    elif k == "compose":
        ab, bc, ac = units.scaling(w["a"], w["b"]), units.scaling(w["b"], w["c"]), units.scaling(w["a"], w["c"])
        if not math.isclose(ab * bc, ac, rel_tol=1e-12):
            ctx.violation("replay:compose", {"ab*bc": ab * bc, "ac": ac}, w)
    elif k in ("cross", "nonunit"):
        try:
            ok = units.scalable(w["a"], w["b"])
        except Exception:
            ok = False
        if ok:
            ctx.violation("replay:" + k, {"a": w["a"], "b": w["b"]}, w)
    elif k == "compound":
        if not units.is_compound(w["s"]):
            ctx.violation("replay:compound", {"s": w["s"]}, w)
