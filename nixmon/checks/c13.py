"""C13 - tree searches, parents and 'referring' lists reflect the stored structure.

Oracle: a model tree (nodes with ids, names, types, ordered children) built alongside the real section and
source trees, and the model's metadata / source link relations.  find_sections / find_sources on File, Block,
Section and Source must equal the model's breadth-first list restricted to depth <= limit and to the filter
(ids, order, multiplicity); Section.parent / Source.parent_source / Source.parent_block must equal the model
parent for handles obtained along every path (creation result, container walk, find_*, link list, metadata
link, after reopening); every referring_* list must equal the inverse of the links the model holds.
"""
ID = "C13"
LEVEL = "exploration"
TECHNIQUE = ("runtime reference-model monitor: model tree (BFS with depth limit and filter, parents, inverse link relations) "
             "compared with find_*/parent*/referring_* of the real file through handles obtained along every access path, "
             "in the writing session and after reopening")
RULE = ("Case = one file with a random section tree and, in each of two blocks, a random source tree (branching 0-3, depth "
        "0-4, names drawn from a pool of three so that names repeat across subtrees, levels and blocks), 0-14 metadata "
        "links from blocks, groups, arrays, frames, tags, multi-tags and (nested) sources and 0-10 source links from "
        "arrays, tags, multi-tags; then some links are re-assigned / removed and some subtrees deleted.  Judged: every "
        "limit 0..depth+1 and None x 4 filters on File/Block and on sampled Section/Source roots; parents of every node "
        "through 4-5 handle paths; all referring_* lists of every node.  Distinct by (tree shape signature, name-collision "
        "pattern, mutation kinds, reopened mode); trivial = files with fewer than 3 tree nodes.")
ASSUMPTIONS = ["depth origin: the searched section/source is depth 0; on File/Block the top level is depth 1; limit=0 on File/Block "
               "is not judged (A2)",
               "referring_objects is judged as the inverse of the metadata links of every kind of holder (blocks, groups, arrays, frames, tags, multi-tags, sources)",
               "order inside a referring_* list is not judged (the statement fixes the set and multiplicity: 'exactly the inverse')"]

NSHARDS = 16
NAMES = ["x", "y", "z"]


def plan(tier, seed):
    n = 5 if tier == "quick" else 60
    return [{"i": i, "files": n} for i in range(NSHARDS)]


class N:
    __slots__ = ("name", "type", "parent", "children", "id", "block")

    def __init__(self, name, type_, parent, block=None):
        self.name, self.type, self.parent, self.children, self.id, self.block = name, type_, parent, [], None, block

    def depth_below(self):
        return 1 + max([c.depth_below() for c in self.children], default=0)

    def sub(self):
        out = [self]
        for c in self.children:
            out += c.sub()
        return out


def bfs(roots, limit, filt, rootlevel):
    out, q = [], [(r, rootlevel) for r in roots]
    while q:
        n, l = q.pop(0)
        if filt(n):
            out.append(n.id)
        if l + 1 <= limit:
            q += [(c, l + 1) for c in n.children]
    return out


class Case:
    def __init__(self, ctx, nix, path, rng, rep):
        self.ctx, self.nix, self.path, self.rng, self.rep = ctx, nix, path, rng, rep
        self.sroots = []
        self.broots = {}       # block name -> roots
        self.md = {}           # (kind, holder id) -> section id
        self.srclinks = {}     # (kind, holder id) -> [source ids]
        self.muts = set()
        self.mode = None

    def viol(self, mech, detail):
        self.ctx.violation(mech, dict(detail, case=self.rep), self.rep)

    # ---- building -------------------------------------------------------------------------
    def grow(self, pm, preal, depth, kind, roots, blockname=None, maxdepth=4):
        rng = self.rng
        k = rng.choice([0, 1, 2, 2, 3]) if depth <= maxdepth else 0
        if depth == 1 and k == 0:
            k = 1
        used = set()
        for _ in range(k):
            nm = rng.choice(NAMES)
            if nm in used:
                continue
            used.add(nm)
            ty = "t" + rng.choice(NAMES)
            n = N(nm, ty, pm, blockname)
            real = preal.create_section(nm, ty) if kind == "sec" else preal.create_source(nm, ty)
            n.id = real.id
            (pm.children if pm else roots).append(n)
            if rng.random() < 0.75:
                self.grow(n, real, depth + 1, kind, roots, blockname, maxdepth)

    def all_sec(self):
        return [n for r in self.sroots for n in r.sub()]

    def all_src(self, bn):
        return [n for r in self.broots[bn] for n in r.sub()]

    # ---- handles along different paths ---------------------------------------------------------
    def path_of(self, n):
        p = []
        while n:
            p.append(n)
            n = n.parent
        return list(reversed(p))

    def sec_handles(self, f, n):
        """[(path label, handle)]"""
        out = []
        p = self.path_of(n)
        cur = f.sections[[x.id for x in f.sections].index(p[0].id)]
        for m in p[1:]:
            cur = cur.sections[m.id] if self.rng.random() < 0.5 else cur.sections[[x.id for x in cur.sections].index(m.id)]
        out.append(("container_walk", cur))
        cur = f.sections[p[0].id]
        for m in p[1:]:
            hits = [x for x in cur.sections if x.id == m.id]
            cur = hits[0]
        out.append(("iteration_walk", cur))
        hits = f.find_sections(filtr=lambda s: s.id == n.id)
        if len(hits) == 1:
            out.append(("find_sections", hits[0]))
        if n.parent is not None:
            ph = f.find_sections(filtr=lambda s: s.id == n.parent.id)
            if len(ph) == 1:
                hs = ph[0].find_sections(filtr=lambda s: s.id == n.id, limit=1)
                if len(hs) == 1:
                    out.append(("find_from_parent", hs[0]))
        return out

    def src_handles(self, b, n):
        out = []
        p = self.path_of(n)
        cur = b.sources[[x.id for x in b.sources].index(p[0].id)]
        for m in p[1:]:
            cur = cur.sources[m.id] if self.rng.random() < 0.5 else cur.sources[[x.id for x in cur.sources].index(m.id)]
        out.append(("container_walk", cur))
        hits = b.find_sources(filtr=lambda s: s.id == n.id)
        if len(hits) == 1:
            out.append(("find_sources", hits[0]))
        if n.parent is not None:
            ph = b.find_sources(filtr=lambda s: s.id == n.parent.id)
            if len(ph) == 1:
                hs = ph[0].find_sources(filtr=lambda s: s.id == n.id, limit=1)
                if len(hs) == 1:
                    out.append(("find_from_parent", hs[0]))
        return out

    def holders(self, f):
        """[(kind, entity)] of everything that can carry metadata"""
        out = []
        for b in f.blocks:
            out.append(("Block", b))
            out += [("Group", x) for x in b.groups] + [("DataArray", x) for x in b.data_arrays] + [("DataFrame", x) for x in b.data_frames]
            out += [("Tag", x) for x in b.tags] + [("MultiTag", x) for x in b.multi_tags]
            out += [("Source", x) for x in b.find_sources()]
        return out

    # ---- judging --------------------------------------------------------------------------
    def judge_find(self, f, when):
        rng, ctx = self.rng, self.ctx
        filters = [("all", lambda n: True, lambda s: True), ("name=x", lambda n: n.name == "x", lambda s: s.name == "x"),
                   ("type=ty", lambda n: n.type == "ty", lambda s: s.type == "ty"), ("none", lambda n: False, lambda s: False)]
        maxd = max([r.depth_below() for r in self.sroots], default=0)
        for limit in [None] + list(range(0, maxd + 2)):
            lim = 10 ** 9 if limit is None else limit
            lcl = "none" if limit is None else ("zero" if limit == 0 else ("beyond" if limit > maxd else "inside"))
            for fname, fm, fr in filters:
                if limit != 0:
                    exp = bfs(self.sroots, lim, fm, 1)
                    got = [s.id for s in (f.find_sections(filtr=fr, limit=limit) if limit is not None or rng.random() < 0.5 else f.find_sections(filtr=fr))]
                    ctx.count("find_queries")
                    if got != exp:
                        self.viol("File.find_sections:%s:limit_%s:filter_%s" % (self.cmp_kind(exp, got), lcl, fname), {"when": when, "limit": limit, "expected": exp[:8], "got": got[:8]})
                for n in rng.sample(self.all_sec(), min(3, len(self.all_sec()))):
                    for label, h in self.sec_handles(f, n)[:1]:
                        exp = bfs([n], lim, fm, 0)
                        got = [s.id for s in h.find_sections(filtr=fr, limit=limit)]
                        ctx.count("find_queries")
                        if got != exp:
                            self.viol("Section.find_sections:%s:limit_%s:filter_%s" % (self.cmp_kind(exp, got), lcl, fname), {"when": when, "limit": limit, "root": n.name, "expected": exp[:8], "got": got[:8]})
        for b in f.blocks:
            roots = self.broots[b.name]
            maxd = max([r.depth_below() for r in roots], default=0)
            for limit in [None] + list(range(0, maxd + 2)):
                lim = 10 ** 9 if limit is None else limit
                lcl = "none" if limit is None else ("zero" if limit == 0 else ("beyond" if limit > maxd else "inside"))
                for fname, fm, fr in filters:
                    if limit != 0:
                        exp = bfs(roots, lim, fm, 1)
                        got = [s.id for s in b.find_sources(filtr=fr, limit=limit)]
                        ctx.count("find_queries")
                        if got != exp:
                            self.viol("Block.find_sources:%s:limit_%s:filter_%s" % (self.cmp_kind(exp, got), lcl, fname), {"when": when, "limit": limit, "expected": exp[:8], "got": got[:8]})
                    srcs = self.all_src(b.name)
                    for n in rng.sample(srcs, min(2, len(srcs))):
                        h = self.src_handles(b, n)[0][1]
                        exp = bfs([n], lim, fm, 0)
                        got = [s.id for s in h.find_sources(filtr=fr, limit=limit)]
                        ctx.count("find_queries")
                        if got != exp:
                            self.viol("Source.find_sources:%s:limit_%s:filter_%s" % (self.cmp_kind(exp, got), lcl, fname), {"when": when, "limit": limit, "root": n.name, "expected": exp[:8], "got": got[:8]})

    @staticmethod
    def cmp_kind(exp, got):
        if sorted(exp) == sorted(got):
            return "wrong_order"
        if len(set(got)) != len(got):
            return "duplicates"
        if set(got) < set(exp):
            return "missing"
        if set(got) > set(exp):
            return "surplus"
        return "wrong_set"

    def collision(self, n, nodes):
        """name-collision pattern of a node: does another node with the same name exist elsewhere?"""
        same = [m for m in nodes if m.name == n.name and m is not n]
        if not same:
            return "unique_name"
        if n.parent is not None and any(m is n.parent or (m.parent is None) for m in same):
            return "same_name_at_upper_level"
        return "same_name_elsewhere"

    def judge_parents(self, f, when):
        ctx = self.ctx
        secs = self.all_sec()
        for n in secs:
            exp = n.parent.id if n.parent else None
            hs = self.sec_handles(f, n)
            # handles reached through metadata links
            for (kind, hid), sid in self.md.items():
                if sid == n.id:
                    ent = self.find_holder(f, kind, hid)
                    if ent is not None and ent.metadata is not None:
                        hs.append(("metadata_link:" + kind, ent.metadata))
                        break
            # handles reached through the link of ANOTHER section
            for lid, tid in getattr(self, "seclinks", {}).items():
                if tid == n.id:
                    ln = [m for m in secs if m.id == lid]
                    if ln:
                        try:
                            lh = self.sec_handles(f, ln[0])[0][1].link
                        except Exception as e:
                            self.viol("Section.link:raises_%s" % type(e).__name__, {"when": when, "error": repr(e)[:200]})
                            break
                        if lh is not None and lh.id == n.id:
                            hs.append(("section_link", lh))
                        else:
                            self.viol("Section.link:yields_other_entity", {"when": when, "linking": ln[0].name, "expected": n.id, "got": getattr(lh, "id", None)})
                        break
            for label, h in hs:
                ctx.count("parent_queries")
                ctx.count("parent_via:" + label.split(":")[0])
                try:
                    par = h.parent
                except Exception as e:
                    self.viol("Section.parent:raises_%s:via_%s" % (type(e).__name__, label.split(":")[0]), {"when": when, "node": n.name, "error": repr(e)[:200]})
                    continue
                got = par.id if par is not None else None
                if got != exp:
                    self.viol("Section.parent:wrong:via_%s:%s" % (label.split(":")[0], self.collision(n, secs)),
                              {"when": when, "node": n.name, "path": [m.name for m in self.path_of(n)], "expected_parent": exp, "got_parent": got,
                               "got_name": par.name if par is not None else None})
        for b in f.blocks:
            srcs = self.all_src(b.name)
            for n in srcs:
                exp = n.parent.id if n.parent else None
                hs = self.src_handles(b, n)
                for kind, holder in [("DataArray", x) for x in b.data_arrays] + [("Tag", x) for x in b.tags] + [("MultiTag", x) for x in b.multi_tags] + [("Group", x) for x in b.groups]:
                    if n.id in self.srclinks.get((kind, holder.id), []):
                        hs.append(("source_link:" + kind, holder.sources[n.id]))
                        break
                for label, h in hs:
                    ctx.count("parent_queries")
                    ctx.count("parent_via:" + label.split(":")[0])
                    try:
                        par = h.parent_source
                        pb = h.parent_block
                    except Exception as e:
                        self.viol("Source.parent_source:raises_%s:via_%s" % (type(e).__name__, label.split(":")[0]), {"when": when, "node": n.name, "error": repr(e)[:200]})
                        continue
                    got = par.id if par is not None else None
                    if got != exp:
                        self.viol("Source.parent_source:wrong:via_%s:%s" % (label.split(":")[0], self.collision(n, srcs)),
                                  {"when": when, "node": n.name, "path": [m.name for m in self.path_of(n)], "expected_parent": exp, "got_parent": got})
                    if pb is None or pb.id != b.id:
                        self.viol("Source.parent_block:wrong:via_%s" % label.split(":")[0], {"when": when, "node": n.name, "expected": b.id, "got": getattr(pb, "id", None)})

    def find_holder(self, f, kind, hid):
        for k, e in self.holders(f):
            if k == kind and e.id == hid:
                return e
        return None

    def judge_referring(self, f, when):
        ctx = self.ctx
        SEC = [("Block", "referring_blocks"), ("Group", "referring_groups"), ("DataArray", "referring_data_arrays"), ("Tag", "referring_tags"),
               ("MultiTag", "referring_multi_tags"), ("Source", "referring_sources"), ("DataFrame", "referring_data_frames")]
        for n in self.all_sec():
            s = self.sec_handles(f, n)[0][1]
            allexp = []
            for kind, attr in SEC:
                exp = sorted(i for (k, i), sid in self.md.items() if k == kind and sid == n.id)
                allexp += exp
                if kind == "DataFrame" and not hasattr(type(s), attr):
                    continue        # no per-kind list for frames: they still belong to referring_objects (the inverse of ALL metadata links)
                ctx.count("referring_queries")
                try:
                    got = sorted(x.id for x in getattr(s, attr))
                except Exception as e:
                    self.viol("Section.%s:raises_%s" % (attr, type(e).__name__), {"when": when, "error": repr(e)[:200]})
                    continue
                if got != exp:
                    nested = kind == "Source" and any(self.is_nested_source(i) for i in set(exp) ^ set(got))
                    self.viol("Section.%s:%s%s" % (attr, self.cmp_kind(exp, got), ":nested_source" if nested else ""), {"when": when, "section": n.name, "expected": exp, "got": got})
            try:
                got = sorted(x.id for x in s.referring_objects)
                if got != sorted(allexp):
                    self.viol("Section.referring_objects:%s" % self.cmp_kind(sorted(allexp), got), {"when": when, "section": n.name, "expected": sorted(allexp), "got": got})
            except Exception as e:
                self.viol("Section.referring_objects:raises_%s" % type(e).__name__, {"when": when, "error": repr(e)[:200]})
        SRC = [("DataArray", "referring_data_arrays"), ("Tag", "referring_tags"), ("MultiTag", "referring_multi_tags")]
        for b in f.blocks:
            for n in self.all_src(b.name):
                s = self.src_handles(b, n)[0][1]
                allexp = []
                for kind, attr in SRC:
                    exp = sorted(hid for (k, hid), ids in self.srclinks.items() if k == kind and n.id in ids)
                    allexp += exp
                    ctx.count("referring_queries")
                    try:
                        got = sorted(x.id for x in getattr(s, attr))
                    except Exception as e:
                        self.viol("Source.%s:raises_%s" % (attr, type(e).__name__), {"when": when, "error": repr(e)[:200]})
                        continue
                    if got != exp:
                        self.viol("Source.%s:%s:%s" % (attr, self.cmp_kind(exp, got), self.collision(n, self.all_src(b.name))), {"when": when, "source": n.name, "expected": exp, "got": got})
                try:
                    got = sorted(x.id for x in s.referring_objects)
                    if got != sorted(allexp):
                        self.viol("Source.referring_objects:%s" % self.cmp_kind(sorted(allexp), got), {"when": when, "source": n.name, "expected": sorted(allexp), "got": got})
                except Exception as e:
                    self.viol("Source.referring_objects:raises_%s" % type(e).__name__, {"when": when, "error": repr(e)[:200]})

    def is_nested_source(self, sid):
        for roots in self.broots.values():
            for r in roots:
                for n in r.sub():
                    if n.id == sid:
                        return n.parent is not None
        return False

    def judge(self, f, when):
        self.judge_find(f, when)
        self.judge_parents(f, when)
        self.judge_referring(f, when)

    # ---- mutations --------------------------------------------------------------------------
    def link_some(self, f):
        rng = self.rng
        secs = self.all_sec()
        # sections linked to other sections (anywhere in the tree, also to an ancestor or a same-named one)
        self.seclinks = getattr(self, "seclinks", {})
        for n in secs:
            if len(secs) > 1 and rng.random() < 0.3:
                t = rng.choice([m for m in secs if m.id != n.id])
                self.sec_handles(f, n)[0][1].link = self.sec_handles(f, t)[0][1]
                self.seclinks[n.id] = t.id
        for kind, hd in self.holders(f):
            if secs and rng.random() < 0.45:
                n = rng.choice(secs)
                hd.metadata = self.sec_handles(f, n)[0][1]
                self.md[(kind, hd.id)] = n.id
        for b in f.blocks:
            srcs = self.all_src(b.name)
            for kind, hd in [("DataArray", x) for x in b.data_arrays] + [("Tag", x) for x in b.tags] + [("MultiTag", x) for x in b.multi_tags] + [("Group", x) for x in b.groups]:
                for _ in range(rng.randint(0, 3)):
                    if srcs:
                        n = rng.choice(srcs)
                        lst = self.srclinks.setdefault((kind, hd.id), [])
                        if n.id not in lst:
                            hd.sources.append(self.src_handles(b, n)[0][1])
                            lst.append(n.id)

    def mutate(self, f):
        rng = self.rng
        for _ in range(rng.randint(1, 4)):
            k = rng.choice(["relink_md", "clear_md", "unlink_src", "delete_section", "delete_source", "add_subtree"])
            self.muts.add(k)
            if k == "relink_md" and self.md and self.all_sec():
                (kind, hid) = rng.choice(sorted(self.md))
                ent = self.find_holder(f, kind, hid)
                n = rng.choice(self.all_sec())
                ent.metadata = self.sec_handles(f, n)[0][1]
                self.md[(kind, hid)] = n.id
            elif k == "clear_md" and self.md:
                (kind, hid) = rng.choice(sorted(self.md))
                ent = self.find_holder(f, kind, hid)
                del ent.metadata
                del self.md[(kind, hid)]
            elif k == "unlink_src" and any(self.srclinks.values()):
                (kind, hid) = rng.choice(sorted(k_ for k_, v in self.srclinks.items() if v))
                ent = self.find_holder(f, kind, hid)
                sid = rng.choice(self.srclinks[(kind, hid)])
                del ent.sources[sid]
                self.srclinks[(kind, hid)].remove(sid)
            elif k == "delete_section" and len(self.all_sec()) > 2:
                n = rng.choice(self.all_sec())
                dead = {m.id for m in n.sub()}
                h = self.sec_handles(f, n)[0][1]
                cont = f.sections if n.parent is None else self.sec_handles(f, n.parent)[0][1].sections
                del cont[rng.choice([n.id, h])]
                (n.parent.children if n.parent else self.sroots).remove(n)
                for key in [key for key, sid in self.md.items() if sid in dead]:
                    del self.md[key]
                self.seclinks = {a: b for a, b in getattr(self, "seclinks", {}).items() if a not in dead and b not in dead}
            elif k == "delete_source":
                b = rng.choice(list(f.blocks))
                srcs = self.all_src(b.name)
                if len(srcs) > 2:
                    n = rng.choice(srcs)
                    dead = {m.id for m in n.sub()}
                    cont = b.sources if n.parent is None else self.src_handles(b, n.parent)[0][1].sources
                    del cont[n.id]
                    (n.parent.children if n.parent else self.broots[b.name]).remove(n)
                    for key in list(self.srclinks):
                        self.srclinks[key] = [i for i in self.srclinks[key] if i not in dead]
                    for key in [key for key in self.md if key[0] == "Source" and key[1] in dead]:
                        del self.md[key]
            elif k == "add_subtree" and self.all_sec():
                n = rng.choice(self.all_sec())
                if len(self.path_of(n)) < 5:
                    h = self.sec_handles(f, n)[0][1]
                    free = [x for x in NAMES + ["w"] if x not in {c.name for c in n.children}]
                    if free:
                        nm = rng.choice(free)
                        real = h.create_section(nm, "tx")
                        c = N(nm, "tx", n)
                        c.id = real.id
                        n.children.append(c)

    # ---- driver -----------------------------------------------------------------------------
    def run(self):
        import numpy as np
        from collections import OrderedDict
        nix, rng = self.nix, self.rng
        from .. import clock
        clock.install()
        f = nix.File.open(self.path, nix.FileMode.Overwrite)
        try:
            self.grow(None, f, 1, "sec", self.sroots, maxdepth=rng.randint(1, 4))
            if rng.random() < 0.5:
                # a block WITHOUT any source comes first: searches and referring lists must get past it
                b0 = f.create_block("a0_no_sources", "t")
                self.broots[b0.name] = []
                b0.create_data_array("d0", "t", data=[1.0])
                self.ctx.count("files_with_a_leading_block_without_sources")
            for bn in ("b", "b2"):
                b = f.create_block(bn, "t")
                self.broots[bn] = []
                self.grow(None, b, 1, "src", self.broots[bn], bn, maxdepth=rng.randint(1, 4))
                das = [b.create_data_array("d%d" % i, "t", data=[1.0]) for i in range(3)]
                [b.create_tag("t%d" % i, "t", [0.0]) for i in range(2)]
                [b.create_multi_tag("m%d" % i, "t", das[0]) for i in range(2)]
                [b.create_group("g%d" % i, "t") for i in range(2)]
                b.create_data_frame("f0", "t", col_dict=OrderedDict([("a", int)]))
            self.link_some(f)
            self.judge(f, "writing_session")
            self.mutate(f)
            self.judge(f, "after_mutations")
            f.close()
            self.mode = rng.choice([nix.FileMode.ReadOnly, nix.FileMode.ReadWrite])
            f = nix.File.open(self.path, self.mode)
            self.judge(f, "after_reopen")
            if self.mode == nix.FileMode.ReadWrite:
                self.kept_id_copies(f)
        finally:
            try:
                f.close()
            except Exception:
                pass

    def kept_id_copies(self, f):
        """A section subtree copied (ids kept - the default) to another place of the same tree: every search whose range holds
        both the source and the copy lists both, with everything below them.  Oracle: an own breadth-first walk over the
        containers (ids repeat here, so the walk, not an id-keyed model, is the reference)."""
        rng, ctx = self.rng, self.ctx
        secs = []
        q = [(s, 1) for s in f.sections]
        while q:
            s, d = q.pop(0)
            secs.append(s)
            q.extend((c, d + 1) for c in s.sections)
        if len(secs) < 2:
            return
        src = rng.choice(secs)
        sub = set()
        q = [src]
        while q:
            x = q.pop()
            sub.add(x.id)
            q.extend(x.sections)
        dests = [s for s in secs if s.id not in sub]
        try:
            if dests and rng.random() < 0.7:
                cp = rng.choice(dests).copy_section(src, name="kept id copy")
            else:
                cp = f.copy_section(src, name="kept id copy")
            cp.create_section("added below the copy", "t")
        except Exception as e:
            ctx.observe("kept_id_copy_not_made", repr(e)[:200])
            return

        def walk(roots, limit):
            out, q = [], [(r, 1) for r in roots]
            while q:
                s, d = q.pop(0)
                if d > limit:
                    continue
                out.append((s.id, s.name))
                q.extend((c, d + 1) for c in s.sections)
            return out
        ctx.count("kept_id_copy_searches")
        for limit in (None, 1, 2, 3):
            exp = walk(f.sections, limit if limit is not None else 10 ** 6)
            try:
                got = [(s.id, s.name) for s in (f.find_sections() if limit is None else f.find_sections(limit=limit))]
            except Exception as e:
                self.viol("File.find_sections:raises_%s:after_kept_id_copy" % type(e).__name__, {"error": repr(e)[:200]})
                continue
            if got != exp:
                self.viol("File.find_sections:%s:after_kept_id_copy" % self.cmp_kind([x[0] for x in exp], [x[0] for x in got]),
                          {"limit": limit, "expected": [x[1] for x in exp][:12], "got": [x[1] for x in got][:12], "n_expected": len(exp), "n_got": len(got)})
        try:
            got = [s.name for s in f.find_sections(filtr=lambda s: s.name == "added below the copy")]
            if got != ["added below the copy"]:
                self.viol("File.find_sections:missing:below_kept_id_copy", {"got": got})
        except Exception as e:
            self.viol("File.find_sections:raises_%s:after_kept_id_copy" % type(e).__name__, {"error": repr(e)[:200]})

    def signature(self):
        def shape(n):
            return (n.name, tuple(shape(c) for c in n.children))
        secs = self.all_sec()
        coll = tuple(sorted({self.collision(n, secs) for n in secs}))
        return (tuple(shape(r) for r in self.sroots), tuple(tuple(shape(r) for r in self.broots[b]) for b in sorted(self.broots)),
                coll, tuple(sorted(self.muts)), str(self.mode))


def run_shard(spec, ctx):
    from .. import env
    nix = env.import_nixio()
    path = env.scratch_file("c13_%d.nix" % ctx.shard)
    for k in range(spec["files"]):
        rep = {"case": k, "shard": ctx.shard}
        c = Case(ctx, nix, path, ctx.rng("c13", k), rep)
        ctx.guarded("case", c.run)
        nn = len(c.all_sec()) + sum(len(c.all_src(b)) for b in c.broots)
        if nn >= 3:
            ctx.case(c.signature(), sample={"section_nodes": len(c.all_sec()), "source_nodes": {b: len(c.all_src(b)) for b in c.broots},
                                            "section_paths": ["/".join(m.name for m in c.path_of(n)) for n in c.all_sec()][:12],
                                            "metadata_links": len(c.md), "source_links": sum(len(v) for v in c.srclinks.values()),
                                            "mutations": sorted(c.muts), "reopened": str(c.mode)})
        else:
            ctx.case(None)
        ctx.count("tree_nodes", nn)


def replay(w, ctx):
    from .. import env
    nix = env.import_nixio()
    ctx.shard = w.get("shard", 0)
    ctx.case(("replay",))
    Case(ctx, nix, env.scratch_file("c13_replay.nix"), ctx.rng("c13", w["case"]), w).run()
