"""C18 - format upgrade preserves content, is idempotent, resumable after interruption.

A builder makes OLD-FORMAT files: content is created with the current library, then the file is rewritten with raw h5py
into the layout the library's own legacy readers define (header version 1.0.0 / 1.1.0 with compound-typed property
datasets carrying per-value extras, 1.1.1 / 1.2.0 with plain ones; alias range dimensions = a hard link named by the
array id inside the dimension group; with / without a file id).  The recipe of what was put in is kept.

Observations around nixio.file_upgrade(path):
  * content dump (canonical snapshot through the public API, read-only) before vs after: every block, array, data,
    descriptor (ticks / unit / label of alias dimensions), section, property value / unit / definition;
  * extras of old properties looked up again according to the recipe;
  * File.open(ReadWrite), header version, collect_tasks() == [], second upgrade leaves sha256 unchanged;
  * FAULT ENUMERATION: for EVERY k = 1..n the k-th write-open of the upgrade (= every step boundary: tasks, and each
    property / dimension conversion inside a task) is made to fail (BaseException failpoint; thorough: SIGKILL of a
    child process at the same point); the file must still carry the old version and still be scheduled for work, a
    re-run must return True and end with the same content as the uninterrupted run.
"""
import hashlib
import os
import shutil
import subprocess
import sys

ID = "C18"
LEVEL = "fault_enumeration"
TECHNIQUE = ("fault enumeration at runtime: failpoint (and SIGKILL in the thorough tier) at every write-open of the real upgrade code on "
             "generated old-format files; canonical content dump before / after / after resume compared with each other and with the "
             "builder's recipe; header version, collect_tasks, ReadWrite open and sha256 observed after each run")
RULE = ("Case = one (old-format file, interruption point k) pair, k = 0 (uninterrupted) .. n (every write-open of the upgrade); all k of a "
        "file are enumerated.  Files: header version in {1.0.0, 1.1.0, 1.1.1, 1.2.0} x file id present/absent x 0-3 alias range dimensions "
        "(with/without unit and label) x 0-4 sections (nested) x 0-6 properties each over {int (stored as int64/32/16, uint8/32/64, values at the ends of the range), float, text, bool} x 0-5 values x "
        "uncertainty {none, constant, varying, varying by 1e-9 absolute / 3e-6 relative} x reference / filename / encoder / checksum {unset, partly set}; blocks with arrays of "
        "several element types, sampled / set / range descriptors, groups, tags.  Distinct by (version, id present, number of alias "
        "dimensions, property type multiset, extras pattern, step kind at k); trivial = none.")
ASSUMPTIONS = ["properties are compared order-insensitively by (section path, name); ids and timestamps of converted objects (properties, dimension "
               "links) and the file header (version, id) are not part of the comparison (A16)",
               "an interrupted file is not required to be readable through the API before the re-run (the legacy reader is selected by the header "
               "version); it must be recognised as old (collect_tasks non-empty, header version unchanged) and resumable",
               "interruption points are the write-opens of the upgrade: one per task and per property / dimension conversion",
               "old-format files are produced by a builder written from the library's legacy readers, not by an old library version",
               "extras: a constant non-zero uncertainty must be readable as the main property's uncertainty, everything else as the values of a "
               "property '<name>.<extra>' in the same section; extras that were never set need not appear"]
NSHARDS = 16
EXTRAS = ("reference", "filename", "encoder", "checksum")


def plan(tier, seed):
    # a shard takes files until it has enumerated `points` interruption points (files differ a lot in their number of steps)
    return [{"i": i, "files": 400, "points": 60 if tier == "quick" else 700, "sigkill": tier != "quick"} for i in range(NSHARDS)]


class Crash(BaseException):
    pass


# ------------------------------------------------------------------------------------------------------------
# builder of old-format files
# ------------------------------------------------------------------------------------------------------------
def build_old_file(nix, np, rng, path):
    import h5py
    from collections import OrderedDict
    vs = h5py.string_dtype()
    ver = rng.choice([(1, 0, 0), (1, 1, 0), (1, 0, 0), (1, 1, 0), (1, 1, 1), (1, 2, 0)])
    compound = ver < (1, 1, 1)
    has_id = True if ver >= (1, 2, 0) else rng.random() < 0.4
    f = nix.File.open(path, nix.FileMode.Overwrite, compression=rng.choice(list(nix.Compression)))
    recipe = {"version": ver, "has_id": has_id, "props": {}, "alias": [], "nprops_compound": 0}
    alias_paths, prop_paths = [], []
    for bi in range(rng.randint(1, 2)):
        b = f.create_block("blk%d" % bi, "t.block")
        b.definition = rng.choice([None, "a block"])
        for ai in range(rng.randint(0, 2) if bi else rng.randint(0, 3)):
            n = rng.randint(1, 6)
            d = b.create_data_array("alias%d" % ai, "t.alias", data=np.cumsum(np.full(n, rng.choice([1.0, 0.5, 0.25]))) + rng.choice([0.0, -3.0]))
            d.unit = rng.choice(["ms", None, "kHz"])
            d.label = rng.choice(["time", None, "ü-label"])
            d.append_range_dimension()
            alias_paths.append("data/%s/data_arrays/%s" % (b.name, d.name))
            recipe["alias"].append({"array": d.name, "block": b.name, "ticks": [float(x) for x in d[:]], "unit": d.unit, "label": d.label})
        dt = rng.choice([np.float64, np.int32, np.uint8, np.float32])
        d2 = b.create_data_array("plain", "t.arr", data=(np.arange(12).reshape(3, 4) * 3).astype(dt), label="lbl", unit="mV")
        d2.append_sampled_dimension(0.5, unit="ms", offset=1.0, label="t")
        d2.append_range_dimension([1.0, 2.0, 4.0, 8.0], unit="s", label="r")
        d2.polynom_coefficients = [0.0, 2.0]
        d3 = b.create_data_array("labels", "t.arr", dtype=nix.DataType.String, data=np.array(["a", "ü", ""], dtype=object))
        d3.append_set_dimension(["x", "y", "z"])
        g = b.create_group("grp", "t.group")
        g.data_arrays.append(d2)
        tg = b.create_tag("tag", "t.tag", [1.0, 2.0])
        tg.extent = [1.0, 2.0]
        tg.units = ["ms", "s"]
        tg.references.append(d2)
        tg.create_feature(d3, nix.LinkType.Untagged)
        if rng.random() < 0.5:
            b.create_data_frame("frame", "t.frame", col_dict=OrderedDict([("n", nix.DataType.Int64), ("s", str)]), data=[(1, "a"), (2, "ü")])
        src = b.create_source("src", "t.source")
        d2.sources.append(src)

    def mk_section(parent, name, h5path, depth):
        s = parent.create_section(name, "t.section")
        s.definition = rng.choice([None, "sec def"])
        for pi in range(rng.randint(0, 6)):
            typ = rng.choice(["int", "float", "str", "bool"])
            n = rng.randint(0, 5)
            # integer values as other tools store them: any width, signed or not (values near the ends of the type's range)
            ityp = rng.choice(["int64", "int64", "int64", "int32", "int16", "uint8", "uint32", "uint64"]) if typ == "int" else None
            if ityp not in (None, "int64"):
                ii = np.iinfo(ityp)
                ivals = [rng.choice([ii.max, ii.max - rng.randint(0, 9), ii.min, rng.randint(0, 100)]) for _ in range(n)]
            else:
                ivals = [rng.choice([rng.randint(-5, 5), 2 ** 63 - 1, -2 ** 63]) if rng.random() < 0.2 else rng.randint(-5, 5) for _ in range(n)]
            vals = {"int": ivals,
                    "float": [rng.choice([0.5, -1.25, 1e300, 3.0, -0.0]) for _ in range(n)],
                    "str": [rng.choice(["a", "üñ", "", "x y", "long " * 20]) for _ in range(n)],
                    "bool": [rng.random() < 0.5 for _ in range(n)]}[typ]
            pname = rng.choice(["p", "prop", "ü", "q.r"]) + str(pi)
            # (units as other tools wrote them: with a micro sign, a Greek mu, blanks - they are content and must read as before)
            unit, defi = rng.choice([None, "mV", "s", "µV", "μs", "mV / ms", "mumol", "k Ohm"]), rng.choice([None, "defn", "ü def"])
            prop_paths.append(("%s/properties/%s" % (h5path, pname), typ, vals, unit, defi, pname, h5path, ityp))
        if depth < 2:
            for ci in range(rng.randint(0, 2)):
                mk_section(s, "sub%d" % ci, "%s/sections/sub%d" % (h5path, ci), depth + 1)

    for si in range(rng.randint(0, 3)):
        mk_section(f, "sec%d" % si, "metadata/sec%d" % si, 0)
    if rng.random() < 0.5 and len(f.sections):
        f.blocks[0].metadata = f.sections[0]
    f.close()
    # ---- raw rewrite into the old layout ---------------------------------------------------------------------
    from nixio.cmd import upgrade as U
    with h5py.File(path, "a") as h:
        h.attrs["version"] = np.array(ver, dtype=np.int32)
        if not has_id and "id" in h.attrs:
            del h.attrs["id"]
        for ap in alias_paths:
            da = h[ap]
            dim = da["dimensions/1"]
            dim[da.attrs["entity_id"]] = da
        for (ppath, typ, vals, unit, defi, pname, spath, ityp) in prop_paths:
            sec = h[spath]
            props = sec["properties"] if "properties" in sec else U.create_h5group(sec, "properties")
            vt = {"int": np.dtype(ityp or "int64").type, "float": np.float64, "str": vs, "bool": np.bool_}[typ]
            n = len(vals)
            rec = {"type": typ, "stored_as": ityp, "values": list(vals), "unit": unit, "definition": defi, "section": spath, "name": pname, "extras": None}
            if compound:
                dt = np.dtype([("value", vt), ("uncertainty", "f8"), ("reference", vs), ("filename", vs), ("encoder", vs), ("checksum", vs)])
                arr = np.zeros(n, dtype=dt)
                umode = rng.choice(["none", "const", "vary", "vary_tiny", "vary_rel"])
                modes = {e: rng.choice(["unset", "unset", "some", "all"]) for e in EXTRAS}
                ex = {"uncertainty": [], "reference": [], "filename": [], "encoder": [], "checksum": []}
                for i, v in enumerate(vals):
                    unc = {"none": 0.0, "const": 0.5, "vary": 0.125 * (i + 1), "vary_tiny": 1e-9 * (2 * i + 2),
                           "vary_rel": 1.0 + 3e-6 * i}[umode]       # per-value uncertainties that differ by very little are still per-value
                    row = [v, unc]
                    ex["uncertainty"].append(unc)
                    for e in EXTRAS:
                        sv = "%s-%d" % (e[:3], i) if (modes[e] == "all" or (modes[e] == "some" and i % 2 == 0)) else ""
                        row.append(sv)
                        ex[e].append(sv)
                    arr[i] = tuple(row)
                ds = props.create_dataset(pname, data=arr, dtype=dt, chunks=True if n else None, maxshape=(None,) if n else None)
                rec["extras"] = ex
                recipe["nprops_compound"] += 1
            else:
                ds = props.create_dataset(pname, data=np.array(vals, dtype=vt) if n else np.zeros(0, dtype=vt), dtype=vt,
                                          chunks=True if n else None, maxshape=(None,) if n else None)
            ds.attrs["name"] = pname
            ds.attrs["entity_id"] = nix.util.create_id()
            ds.attrs["created_at"] = nix.util.time_to_str(1000)
            ds.attrs["updated_at"] = nix.util.time_to_str(1000)
            if unit:
                ds.attrs["unit"] = unit
            if defi:
                ds.attrs["definition"] = defi
            recipe["props"]["%s/%s" % (spath, pname)] = rec
    return recipe


# ------------------------------------------------------------------------------------------------------------
# content dump (read-only session)
# ------------------------------------------------------------------------------------------------------------
def plain(v):
    """numpy scalar / python value -> (python type name, repr): compares values read through different readers bit-exactly"""
    if hasattr(v, "item") and not isinstance(v, (list, tuple)):
        v = v.item()
    if isinstance(v, bytes):
        v = v.decode("utf-8", "backslashreplace")
    if isinstance(v, (list, tuple)):
        return [plain(x) for x in v]
    return [type(v).__name__, repr(v)]


DIM_KEEP = ("__type__", "index", "ticks", "unit", "label", "labels", "sampling_interval", "offset", "dimension_type")


def dump(nix, path):
    from .. import snapshot
    f = nix.File.open(path, nix.FileMode.ReadOnly)
    try:
        sn = snapshot.Snapper(nix)
        snap = sn.run(f)
        table = {}
        for k, rec in snap.table.items():
            kind = k.split(":")[0]
            if kind == "Property":
                continue
            rec = dict(rec)
            if kind == "Section":
                rec.pop("props", None)
                rec.pop("__dictview__", None)
            if kind == "File":
                for fld in ("version", "id"):
                    rec.pop(fld, None)
            if kind == "DataArray" and isinstance(rec.get("__dims__"), list):
                rec["__dims__"] = [{kk: d.get(kk) for kk in DIM_KEEP if kk in d} if isinstance(d, dict) else d for d in rec["__dims__"]]
            table[k] = rec
        props = {}

        def walk(sec, spath):
            for p in sec.props:
                try:
                    vals = plain(tuple(p.values))
                except Exception as e:
                    vals = ["raises", type(e).__name__]
                try:
                    unc = None if p.uncertainty is None else plain(p.uncertainty)
                except Exception as e:
                    unc = ["raises", type(e).__name__]
                props["%s/%s" % (spath, p.name)] = {"values": vals, "unit": p.unit, "definition": p.definition, "uncertainty": unc}
            for c in sec.sections:
                walk(c, "%s/sections/%s" % (spath, c.name))
        for s in f.sections:
            walk(s, "metadata/%s" % s.name)
        ranges = {}
        for b in f.blocks:
            for da in b.data_arrays:
                try:
                    for i, dm in enumerate(da.dimensions):
                        if type(dm).__name__ == "RangeDimension":
                            ranges["%s/%s/%d" % (b.name, da.name, i + 1)] = {"ticks": plain(tuple(dm.ticks)), "unit": dm.unit, "label": dm.label}
                except Exception as e:
                    ranges["%s/%s" % (b.name, da.name)] = ["raises", type(e).__name__]
        return {"table": table, "props": props, "ranges": ranges, "version": tuple(int(x) for x in f.version),
                "problems": [p for p in snap.problems if p["kind"] == "walk_raises"]}
    finally:
        f.close()


def raw_norm(path):
    """content fingerprint of the closed file through plain h5py, without the ids / timestamps of objects the upgrade creates
    (converted properties, dimension links) and without the header id"""
    import h5py
    from .. import snapshot
    with h5py.File(path, "r") as h:
        scan = snapshot.rawscan(h)
    rows = []
    for o in scan["objects"].values():
        pth = sorted(o["paths"])[0]
        attrs = o["attrs"]
        if "/properties/" in pth or pth.endswith("/link"):
            attrs = [a for a in attrs if a[0] not in ("entity_id", "created_at", "updated_at")]
        if pth == "/":
            attrs = [a for a in attrs if a[0] not in ("id",)]
        rows.append((tuple(sorted(o["paths"])), o["kind"], tuple(map(tuple, attrs)), repr(o.get("data"))))
    return hashlib.sha1(repr(sorted(rows)).encode("utf-8", "backslashreplace")).hexdigest()


def is_extra_name(name, recipe):
    base, _, suffix = name.rpartition(".")
    return suffix in ("uncertainty",) + EXTRAS and base in recipe["props"]


def compare_content(pre, post, recipe, include_extras=False):
    """list of (what, detail): differences between two dumps (main properties only unless include_extras)"""
    out = []
    for k in sorted(set(pre["table"]) | set(post["table"])):
        a, b = pre["table"].get(k), post["table"].get(k)
        if a is None or b is None:
            out.append(("%s_%s" % (k.split(":")[0], "appeared" if a is None else "disappeared"), {"entity": k}))
            continue
        for fld in sorted(set(a) | set(b)):
            if a.get(fld) != b.get(fld):
                out.append(("%s.%s_changed" % (k.split(":")[0], fld), {"entity": k, "before": a.get(fld), "after": b.get(fld)}))
    pa = {k: v for k, v in pre["props"].items() if include_extras or not is_extra_name(k, recipe)}
    pb = {k: v for k, v in post["props"].items() if include_extras or not is_extra_name(k, recipe)}
    for k in sorted(set(pa) | set(pb)):
        a, b = pa.get(k), pb.get(k)
        if a is None or b is None:
            out.append(("property_%s" % ("appeared" if a is None else "lost"), {"property": k}))
            continue
        for fld in ("values", "unit", "definition") + (("uncertainty",) if include_extras else ()):
            if a[fld] != b[fld]:
                out.append(("property_%s_changed" % fld, {"property": k, "before": a[fld], "after": b[fld]}))
    return out


def check_extras(post, recipe, canon):
    out = []
    for key, rec in recipe["props"].items():
        ex = rec["extras"]
        if not ex or key not in post["props"]:
            continue
        unc = ex["uncertainty"]
        if len(set(unc)) > 1:
            got = post["props"].get(key + ".uncertainty")
            if got is None or got["values"] != plain(tuple(float(x) for x in unc)):
                out.append(("extra_lost:uncertainty:varying", {"property": key, "expected": unc, "found": got}))
        elif unc and unc[0] != 0.0:
            got = post["props"][key]["uncertainty"]
            if got != plain(float(unc[0])):
                out.append(("extra_lost:uncertainty:constant", {"property": key, "expected": unc[0], "found": got}))
        for e in EXTRAS:
            if any(ex[e]):
                got = post["props"].get("%s.%s" % (key, e))
                if got is None or got["values"] != plain(tuple(ex[e])):
                    out.append(("extra_lost:%s:%s" % (e, "all_set" if all(ex[e]) else "partly_set"), {"property": key, "expected": ex[e], "found": got}))
    return out


# ------------------------------------------------------------------------------------------------------------
def sha(path):
    with open(path, "rb") as fh:
        return hashlib.sha256(fh.read()).hexdigest()


def header_version(path):
    import h5py
    with h5py.File(path, "r") as h:
        return tuple(int(x) for x in h.attrs["version"])


def run_upgrade_with_failpoint(nix, path, k):
    """runs file_upgrade; the k-th write-open raises Crash.  returns (crashed, number of write-opens seen, return value)"""
    import h5py
    from nixio.cmd import upgrade as U
    cnt = {"n": 0}
    real = h5py.File

    class Proxy:
        def __getattr__(self, name):
            return getattr(h5py, name)

        def File(self, name, mode="r", *a, **kw):
            if mode == "a":
                cnt["n"] += 1
                if cnt["n"] == k:
                    raise Crash()
            return real(name, mode, *a, **kw)
    U.h5py = Proxy()
    try:
        ret = nix.file_upgrade(path)
        return False, cnt["n"], ret
    except Crash:
        return True, cnt["n"], None
    finally:
        U.h5py = h5py


def step_kind(recipe, k, n):
    """which write-open is number k (1-based) of an uninterrupted run with n write-opens"""
    i = k
    if not recipe["has_id"]:
        if i == 1:
            return "add_file_id"
        i -= 1
    if i <= recipe["nprops_compound"]:
        return "property_%d_of_%d" % (min(i, 3), min(recipe["nprops_compound"], 3)) if recipe["nprops_compound"] <= 3 else ("property_first" if i == 1 else ("property_last" if i == recipe["nprops_compound"] else "property_middle"))
    i -= recipe["nprops_compound"]
    if i <= len(recipe["alias"]):
        return "alias_dimension_first" if i == 1 else "alias_dimension_later"
    return "version_bump"


def run_file(ctx, nix, np, fi, spec, rep):
    from .. import env, clock, snapshot
    from nixio.cmd import upgrade as U
    rng = ctx.rng("c18", fi)
    clock.install()
    base = env.scratch_file("c18_%d" % ctx.shard)
    orig, work = base + ".orig.nix", base + ".nix"
    recipe = build_old_file(nix, np, rng, orig)
    canon = snapshot.Snapper(nix).canon
    ver = recipe["version"]
    vtag = "%d.%d.%d" % ver
    info = dict(rep, version=vtag, has_id=recipe["has_id"], alias=len(recipe["alias"]), properties=len(recipe["props"]),
                compound=recipe["nprops_compound"])
    types = tuple(sorted(r["type"] for r in recipe["props"].values()))
    expat = tuple(sorted({(e, "set") for r in recipe["props"].values() if r["extras"] for e in EXTRAS if any(r["extras"][e])} |
                         {("uncertainty", "varying" if len(set(r["extras"]["uncertainty"])) > 1 else ("const" if any(r["extras"]["uncertainty"]) else "none"))
                          for r in recipe["props"].values() if r["extras"]}))
    sig = (vtag, recipe["has_id"], len(recipe["alias"]), types[:8], expat)
    ctx.count("files")
    # ---- before ------------------------------------------------------------------------------------------------
    pre = dump(nix, orig)
    # the builder's recipe vs what the legacy readers show (sanity of the harness AND of the readers)
    for key, rec in recipe["props"].items():
        got = pre["props"].get(key)
        want = plain(tuple(rec["values"]))
        if got is None or got["values"] != want or got["unit"] != rec["unit"] or got["definition"] != rec["definition"]:
            ctx.violation("legacy_reader_differs_from_recipe:%s" % rec["type"], dict(info, property=key, expected=rec["values"], found=got), rep)

    def check_alias(dmp, when):
        for al in recipe["alias"]:
            got = dmp["ranges"].get("%s/%s/1" % (al["block"], al["array"]))
            want = {"ticks": plain(tuple(al["ticks"])), "unit": al["unit"], "label": al["label"]}
            ctx.count("alias_dimensions_checked")
            if got != want:
                bad = [k for k in want if not isinstance(got, dict) or got.get(k) != want[k]]
                ctx.violation("alias_dimension_%s:%s" % (when, "+".join(bad)), dict(info, array=al["array"], expected=want, found=got), rep)
    check_alias(pre, "misread_before_upgrade")
    # ---- uninterrupted run ----------------------------------------------------------------------------------------
    shutil.copy(orig, work)
    crashed, nopen, ret = run_upgrade_with_failpoint(nix, work, -1)
    ctx.case(sig + ("uninterrupted",), sample=dict(info, write_opens=nopen))
    if ret is not True:
        ctx.violation("upgrade_returned_false:%s" % vtag, info, rep)
        return
    post = dump(nix, work)
    if post["version"] != tuple(nix.file.HDF_FF_VERSION):
        ctx.violation("version_not_raised:%s" % vtag, dict(info, got=post["version"]), rep)
    for what, det in compare_content(pre, post, recipe)[:4]:
        ctx.violation("content_changed:%s:%s" % (what, "compound" if ver < (1, 1, 1) else "plain"), dict(info, **det), rep)
    for what, det in check_extras(post, recipe, canon)[:4]:
        ctx.violation(what, dict(info, **det), rep)
    check_alias(post, "lost_by_upgrade")
    ctx.count("properties_compared", len(recipe["props"]))
    ctx.count("extras_checked", sum(1 for r in recipe["props"].values() if r["extras"]))
    if U.collect_tasks(work)[0]:
        ctx.violation("tasks_left_after_upgrade:%s" % vtag, info, rep)
    try:
        nix.File.open(work, nix.FileMode.ReadWrite).close()
    except Exception as e:
        ctx.violation("readwrite_open_fails_after_upgrade:%s:%s" % (vtag, type(e).__name__), dict(info, error=repr(e)[:200]), rep)
    raw_post = raw_norm(work)
    h1 = sha(work)
    r2 = nix.file_upgrade(work)
    if r2 is not True or sha(work) != h1:
        ctx.violation("upgrade_of_up_to_date_file_changes_it", dict(info, returned=r2), rep)
    ctx.count("idempotence_checks")
    # ---- every interruption point ----------------------------------------------------------------------------------
    for k in range(1, nopen + 1):
        kind = step_kind(recipe, k, nopen)
        for mode in (["failpoint", "sigkill"] if spec.get("sigkill") and (k + fi) % 3 == 0 else ["failpoint"]):
            shutil.copy(orig, work)
            if mode == "failpoint":
                crashed, seen, _ = run_upgrade_with_failpoint(nix, work, k)
            else:
                p = subprocess.run([sys.executable, "-m", "nixmon.checks.c18", work, str(k)], cwd=env.VERIF, capture_output=True, timeout=120,
                                   env=dict(os.environ, PYTHONPATH=env.VERIF + os.pathsep + os.environ.get("PYTHONPATH", "")))
                crashed = p.returncode == -9
                if not crashed:
                    ctx.harness_error("sigkill child", RuntimeError("child rc=%r %s" % (p.returncode, p.stderr[-300:])))
                    continue
            ctx.count("interruptions:" + mode)
            inf = dict(info, k=k, of=nopen, step=kind, mode=mode)
            if not crashed:
                ctx.violation("failpoint_not_reached:%s" % kind, inf, rep)
                continue
            hv = header_version(work)
            if hv != ver:
                ctx.violation("version_raised_before_completion:%s" % kind, dict(inf, header=hv), rep)
            try:
                tasks_left = len(U.collect_tasks(work)[0])
            except Exception as e:
                tasks_left = -1
                ctx.violation("collect_tasks_raises_on_interrupted_file:%s:%s" % (kind, type(e).__name__), dict(inf, error=repr(e)[:200]), rep)
            if tasks_left == 0:
                ctx.violation("interrupted_file_not_recognised_as_old:%s" % kind, inf, rep)
            r = nix.file_upgrade(work)
            if r is not True:
                ctx.violation("rerun_returned_false:%s" % kind, inf, rep)
                ctx.case(sig + (kind, mode, "rerun_failed"))
                continue
            same_raw = raw_norm(work) == raw_post
            ctx.count("resumed_raw_content_equal" if same_raw else "resumed_raw_content_differs")
            if same_raw and (k + fi) % 4:
                # byte-for-byte the same objects, attributes, data and links as the uninterrupted result (ids / timestamps of the
                # converted objects aside): the API-level dump is taken for every fourth such point only
                ctx.count("resumes_compared")
                ctx.case(sig + (kind, mode, "resumed"))
                continue
            try:
                fin = dump(nix, work)
            except Exception as e:
                ctx.violation("resumed_file_unreadable:%s:%s" % (kind, type(e).__name__), dict(inf, error=repr(e)[:200]), rep)
                continue
            d = compare_content(post, fin, recipe, include_extras=True)
            for what, det in d[:3]:
                ctx.violation("resumed_differs_from_uninterrupted:%s:%s" % (what, kind.split("_")[0]), dict(inf, **det), rep)
            if fin["ranges"] != post["ranges"]:
                ctx.violation("resumed_differs_from_uninterrupted:range_dimensions:%s" % kind.split("_")[0], dict(inf, before=post["ranges"], after=fin["ranges"]), rep)
            if fin["version"] != post["version"]:
                ctx.violation("resumed_version_differs:%s" % kind, dict(inf, got=fin["version"]), rep)
            if U.collect_tasks(work)[0]:
                ctx.violation("tasks_left_after_resume:%s" % kind, inf, rep)
            ctx.count("resumes_compared")
            ctx.count("resumes_compared_through_api")
            ctx.case(sig + (kind, mode, "resumed"), sample=dict(inf, outcome="resumed, equal to uninterrupted run") if k == 1 else None)
    for pth in (orig, work):
        try:
            os.remove(pth)
        except OSError:
            pass


def run_shard(spec, ctx):
    import numpy as np
    from .. import env
    nix = env.import_nixio()
    for fi in range(spec["files"]):
        rep = {"shard": ctx.shard, "file": fi}
        ctx.guarded("file", run_file, ctx, nix, np, fi, spec, rep)
        done = ctx.counters.get("interruptions:failpoint", 0) + ctx.counters.get("interruptions:sigkill", 0)
        if done >= spec.get("points", 10 ** 9):
            break


def finish(m, tier):
    c = m["counters"]
    for k in ("resumes_compared", "properties_compared", "extras_checked", "alias_dimensions_checked", "idempotence_checks"):
        if not c.get(k):
            m["inconclusive"].append("deciding observation never made: " + k)
    if not c.get("resumes_compared_through_api"):
        m["inconclusive"].append("no resumed file was compared through the API")


def replay(w, ctx):
    import numpy as np
    from .. import env
    nix = env.import_nixio()
    ctx.shard = w.get("shard", 0)
    ctx.case(("replay",))
    ctx.case(("replay", 2))
    run_file(ctx, nix, np, w["file"], {"sigkill": w.get("mode") == "sigkill"}, dict(w))


def child_main(argv):
    """python -m nixmon.checks.c18 <file> <k>: run the upgrade and SIGKILL this process at the k-th write-open"""
    import signal
    import h5py
    from .. import env
    nix = env.import_nixio()
    from nixio.cmd import upgrade as U
    path, k = argv[0], int(argv[1])
    cnt = {"n": 0}
    real = h5py.File

    class Proxy:
        def __getattr__(self, name):
            return getattr(h5py, name)

        def File(self, name, mode="r", *a, **kw):
            if mode == "a":
                cnt["n"] += 1
                if cnt["n"] == k:
                    os.kill(os.getpid(), signal.SIGKILL)
            return real(name, mode, *a, **kw)
    U.h5py = Proxy()
    nix.file_upgrade(path)
    sys.exit(0)


if __name__ == "__main__":
    child_main(sys.argv[1:])
