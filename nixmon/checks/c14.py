"""C14 - validation reports every catalogued inconsistency and nothing else.

A generator builds a WELL-FORMED file together with a model of it (the construction recipe): blocks, groups, data
arrays of rank 1-3 with every descriptor mix, tags / multi-tags (1-D and 2-D positions, extents, units for every
dimension, references, features), source and section trees with properties.  validate() on it must report no error.
Then 1-2 inconsistencies of the statement's catalogue are injected (through the API where the API allows it, otherwise
by removing the attribute through the entity's HDF5 group, as the repository's own validator tests do) and mirrored in
the model.  A reference validator - written from the catalogue in the statement, evaluated on the RESULTING model
state - predicts {(object, error)}; the monitor compares it with File.validate()["errors"] object by object:
    mandatory  subset of  reported  subset of  mandatory + optional           (A17, A20)
"""
import re

ID = "C14"
LEVEL = "exploration"
TECHNIQUE = ("runtime differential monitor: File.validate() on generated files vs a reference validator evaluated on the construction "
             "recipe (model) of the file, compared per object and error kind, on well-formed files and after single / pairwise "
             "injection of catalogued inconsistencies")
RULE = ("Case = one validate() call on one generated file state: the well-formed file, or the file after 1-2 injections out of 39 kinds "
        "(surplus / missing descriptors, tick / label count, missing / unsorted ticks, non-SI dimension unit, missing / negative "
        "interval, missing position(s) (no rows, or no positions array at all), position / extent / unit length mismatches, non-SI and unconvertible tag units, missing "
        "type / name / date / id on every entity kind, on properties and features) at a random eligible object.  Files: 1-2 blocks, "
        "2-6 arrays of rank 1-3 over {sampled, range with stored ticks / linked to another array / using its own data, set(labelled / label-less)}, units over 21 prefixes x 12 base units incl. mol, "
        "Sv, Wb, powers, unit-less; 0-4 tags and multi-tags.  Distinct by (injection kinds, object kinds hit, descriptor mix of the "
        "object, verdict class); trivial = none.")
ASSUMPTIONS = ["predictions are computed on the resulting state: a dependant made inconsistent by an injection is expected too (A17)",
               "an inconsistency that implies another catalogue entry for the same object may be co-reported (A20): missing ticks also count as a "
               "tick-count mismatch; checks on descriptors beyond the data rank, a unit-less tag entry against a dimension with a unit, and "
               "a unit count that differs from only one of {rank, number of descriptors} are optional",
               "error kinds are matched through the validator's own message templates (ValidationError constants), so a reworded message is not an alarm",
               "sampling interval 0, data frames, and feature link types are outside the statement's catalogue and are not injected",
               "objects are identified by their HDF5 path (names and ids can be the thing that is missing)"]

NSHARDS = 16
PREFIXES = ["", "Y", "Z", "E", "P", "T", "G", "M", "k", "h", "da", "d", "c", "m", "u", "n", "p", "f", "a", "z", "y"]
BASES = ["s", "V", "Hz", "m", "mol", "Sv", "Wb", "A", "K", "g", "Pa", "cd", "S"]
NONSI = ["foo", "sillyvolts", "mV/s", "xs", "m s", "s^x"]


def plan(tier, seed):
    n = 1 if tier == "quick" else 10
    return [{"i": i, "files": 40 * n, "rounds": 7} for i in range(NSHARDS)]


# ------------------------------------------------------------------------------------------------------------
# unit model (SI tables restated; the oracle of C09)
# ------------------------------------------------------------------------------------------------------------
_ATOMIC = {}
for _p in PREFIXES:
    for _u in ["m", "g", "s", "A", "K", "mol", "cd", "Hz", "N", "Pa", "J", "W", "C", "V", "F", "S", "Wb", "T", "H", "lm", "lx", "Bq", "Gy",
               "Sv", "kat", "l", "L", "Ohm", "%", "dB", "rad"]:
        _ATOMIC.setdefault(_p + _u, set()).add((_p, _u))


def atomic_parts(unit):
    m = re.fullmatch(r"(.+?)(\^(-?[1-9]\d*))?", unit or "")
    if not m or m.group(1) not in _ATOMIC:
        return None
    return {(u, m.group(3) or "1") for (_, u) in _ATOMIC[m.group(1)]}


def is_atomic(unit):
    return atomic_parts(unit) is not None


def is_si(unit):
    if is_atomic(unit):
        return True
    parts = re.split(r"[*/]", unit or "")
    return len(parts) > 1 and all(is_atomic(p) for p in parts)


def convertible(a, b):
    pa, pb = atomic_parts(a), atomic_parts(b)
    if not pa or not pb:
        return False
    na = {(u, "1" if p in ("1", "") else p) for u, p in pa}
    nb = {(u, "1" if p in ("1", "") else p) for u, p in pb}
    return bool(na & nb)


# ------------------------------------------------------------------------------------------------------------
# reference validator over the model
# ------------------------------------------------------------------------------------------------------------
def reference(model, VE):
    """returns (mandatory, optional): sets of (object path, message)"""
    M, O = set(), set()

    def ent(e, kinds=("type", "id", "name", "date")):
        if "type" in kinds and not e.get("type"):
            M.add((e["path"], VE.NoType))
        if not e.get("id"):
            M.add((e["path"], VE.NoID))
        if "name" in kinds and not e.get("name"):
            M.add((e["path"], VE.NoName))
        if e.get("date") is None:
            M.add((e["path"], VE.NoDate))

    arrays = {a["path"]: a for a in model["arrays"]}
    for e in model["entities"]:
        ent(e)
    for a in model["arrays"]:
        p = a["path"]
        rank = len(a["shape"])
        if len(a["dims"]) != rank:
            M.add((p, VE.DimensionMismatch))
        for i, d in enumerate(a["dims"], 1):
            T = M if i <= rank else O
            ext = a["shape"][i - 1] if i <= rank else None
            if d.get("linked_to"):
                # ticks and unit of a linked range dimension are the target array's current data and unit
                d = dict(d, ticks=list(arrays[d["linked_to"]]["data"]), unit=arrays[d["linked_to"]].get("unit"))
            if d["kind"] == "range":
                if not d["ticks"]:
                    T.add((p, VE.NoTicks.format(i)))
                    O.add((p, VE.RangeDimTicksMismatch.format(i)))
                else:
                    if ext is not None and len(d["ticks"]) != ext:
                        T.add((p, VE.RangeDimTicksMismatch.format(i)))
                    if not all(x < y for x, y in zip(d["ticks"][:-1], d["ticks"][1:])):
                        T.add((p, VE.UnsortedTicks.format(i)))
                if d["unit"] and not is_atomic(d["unit"]):
                    T.add((p, VE.InvalidDimensionUnit.format(i)))
            elif d["kind"] == "sample":
                if d["interval"] is None:
                    T.add((p, VE.NoSamplingInterval.format(i)))
                elif d["interval"] < 0:
                    T.add((p, VE.InvalidSamplingInterval.format(i)))
                if d["unit"] and not is_atomic(d["unit"]):
                    T.add((p, VE.InvalidDimensionUnit.format(i)))
            else:
                if d["labels"] and ext is not None and len(d["labels"]) != ext:
                    T.add((p, VE.SetDimLabelsMismatch.format(i)))

    def dim_units(a):
        out = []
        for d in a["dims"]:
            if d["kind"] == "set":
                out.append("")
            elif d.get("linked_to"):
                out.append(arrays[d["linked_to"]].get("unit") or "")
            else:
                out.append(d["unit"] or "")
        return out

    def unit_rules(t, refs):
        p = t["path"]
        U = t["units"]
        if refs:
            vs_desc = any(len(r["dims"]) != len(U) for r in refs)
            vs_rank = any(len(r["shape"]) != len(U) for r in refs)
            if vs_desc and vs_rank:
                M.add((p, VE.ReferenceUnitsMismatch))
            elif vs_desc or vs_rank:
                O.add((p, VE.ReferenceUnitsMismatch))
            for r in refs:
                for tu, ru in zip(U, dim_units(r)):
                    if tu == "" and ru == "":
                        continue
                    if tu and ru:
                        if not convertible(tu, ru):
                            M.add((p, VE.ReferenceUnitsIncompatible))
                    else:
                        O.add((p, VE.ReferenceUnitsIncompatible))      # a unit against no unit: not decided by the statement
        if any(u and not is_si(u) for u in U):
            M.add((p, VE.InvalidUnit))

    def feats(t):
        for i, ft in enumerate(t["features"]):
            if not ft.get("id"):
                M.add((t["path"], "feature {}: {}".format(i, VE.NoID)))
            if ft.get("date") is None:
                M.add((t["path"], "feature {}: {}".format(i, VE.NoDate)))

    for t in model["tags"]:
        p = t["path"]
        refs = [arrays[r] for r in t["refs"]]
        if not t["position"]:
            M.add((p, VE.NoPosition))
        if refs:
            pl = len(t["position"])
            if any(pl != len(r["shape"]) for r in refs):
                M.add((p, VE.PositionDimensionMismatch))
            if t["extent"]:
                if len(t["extent"]) != pl:
                    M.add((p, VE.PositionExtentMismatch))
                if any(len(t["extent"]) != len(r["shape"]) for r in refs):
                    M.add((p, VE.ExtentDimensionMismatch))
        unit_rules(t, refs)
        feats(t)
    for t in model["mtags"]:
        p = t["path"]
        refs = [arrays[r] for r in t["refs"]]
        ps = t["pos_shape"]
        if not ps or ps[0] == 0:
            M.add((p, VE.NoPositions))
        if ps is None:
            # there is no positions array at all (its link is gone): "positions are not set" is the report the catalogue has for it;
            # what the comparisons with the missing array say is not decided by the statement
            O.update({(p, VE.PositionsDimensionMismatch), (p, VE.PositionsExtentsMismatch), (p, VE.ExtentsDimensionMismatch)})
        elif refs:
            posdim = 1 if len(ps) == 1 else ps[1]
            if any(posdim != len(r["shape"]) for r in refs):
                M.add((p, VE.PositionsDimensionMismatch))
            es = t["ext_shape"]
            if es is not None and es[0] == 0:
                es = None           # an extents array without rows holds no extents (like positions without rows: "not set")
            if es is not None:
                if tuple(es) != tuple(ps):
                    M.add((p, VE.PositionsExtentsMismatch))
                extdim = 1 if len(es) == 1 else es[1]
                if any(extdim != len(r["shape"]) for r in refs):
                    M.add((p, VE.ExtentsDimensionMismatch))
        unit_rules(t, refs)
        feats(t)
    for s in model["sections"]:
        for i, pr in enumerate(s["props"]):
            if not pr.get("id"):
                M.add((s["path"], "property {}: {}".format(i, VE.NoID)))
            if not pr.get("name"):
                M.add((s["path"], "property {}: {}".format(i, VE.NoName)))
    return M, O - M


# ------------------------------------------------------------------------------------------------------------
# generator of well-formed files
# ------------------------------------------------------------------------------------------------------------
def gen_unit(rng):
    r = rng.random()
    if r < 0.25:
        return None
    u = rng.choice(PREFIXES) + rng.choice(BASES)
    if rng.random() < 0.15:
        u += "^" + rng.choice(["2", "3", "-1", "-2"])
    return u


def other_prefix(rng, unit):
    """a unit convertible to `unit`: same base and power, another prefix"""
    m = re.fullmatch(r"(.+?)(\^-?\d+)?", unit)
    head, power = m.group(1), m.group(2) or ""
    base = sorted(u for (_, u) in _ATOMIC[head])
    # the decomposition the generator used: longest base that is a suffix
    b = max((u for u in BASES if head.endswith(u) and head[:len(head) - len(u)] in PREFIXES), key=len)
    return rng.choice(PREFIXES) + b + power


def path_of(obj):
    g = obj._h5group
    return g.group.name if getattr(g, "group", None) is not None else g.name


class Gen:
    def __init__(self, nix, np, rng, f):
        self.nix, self.np, self.rng, self.f = nix, np, rng, f
        self.model = {"entities": [], "arrays": [], "tags": [], "mtags": [], "sections": []}
        self.live = {}       # path -> live object

    def reg_entity(self, obj, kind):
        date = 1
        if self.rng.random() < 0.12:
            # a creation time of exactly 1970-01-01T00:00:00 is a date like any other (it is SET)
            obj.force_created_at(0)
            date = 0
        e = {"path": path_of(obj), "kind": kind, "type": obj.type, "name": obj.name, "id": obj.id, "date": date}
        self.model["entities"].append(e)
        self.live[e["path"]] = obj
        return e

    def array(self, b, name, shape=None, rank=None):
        rng, np = self.rng, self.np
        rank = rank or rng.choice([1, 1, 2, 2, 3])
        shape = shape or tuple(rng.randint(1, 5) for _ in range(rank))
        da = b.create_data_array(name, "t.array", data=np.zeros(shape))
        a = {"path": path_of(da), "shape": tuple(shape), "dims": []}
        for k in range(len(shape)):
            kd = rng.choice(["sample", "range", "set", "setnolabel"])
            if kd == "sample":
                iv, u = rng.choice([0.5, 1.0, 2.0, 0.001, 1e-9, 2.5e-12, 1e9, 5e-324]), gen_unit(rng)     # any positive interval is a positive interval
                da.append_sampled_dimension(iv, unit=u, offset=rng.choice([None, 1.0]) if u else None)
                a["dims"].append({"kind": "sample", "interval": iv, "unit": u})
            elif kd == "range":
                t, u = [float(i) * 0.5 - 1 for i in range(shape[k])], gen_unit(rng)
                how = rng.choice(["stored", "stored", "linked", "self"])
                if how == "self" and len(shape) == 1:
                    # the array's own data are the ticks (what older versions called an alias dimension)
                    da.write_direct(np.array(t))
                    da.unit = u
                    da.append_range_dimension_using_self()
                    a.update(data=t, unit=da.unit)
                    a["dims"].append({"kind": "range", "linked_to": a["path"]})
                elif how == "linked":
                    src = b.create_data_array("%s_ticks%d" % (name, k), "t.ticks", data=np.array(t))
                    src.append_set_dimension()
                    src.unit = u
                    self.model["arrays"].append({"path": path_of(src), "shape": (len(t),), "dims": [{"kind": "set", "labels": None}],
                                                 "data": t, "unit": src.unit})
                    self.reg_entity(src, "DataArray")
                    da.append_range_dimension().link_data_array(src, [-1])
                    a["dims"].append({"kind": "range", "linked_to": path_of(src)})
                else:
                    da.append_range_dimension(t, unit=u)
                    a["dims"].append({"kind": "range", "ticks": t, "unit": u})
            else:
                lab = ["l%d" % i for i in range(shape[k])] if kd == "set" else None
                da.append_set_dimension(lab)
                a["dims"].append({"kind": "set", "labels": lab})
        self.model["arrays"].append(a)
        self.reg_entity(da, "DataArray")
        return da, a

    def dim_unit(self, d):
        if d.get("linked_to"):
            return next(x for x in self.model["arrays"] if x["path"] == d["linked_to"]).get("unit")
        return d.get("unit")

    def tag_units(self, a):
        us = []
        for d in a["dims"]:
            d = dict(d, unit=self.dim_unit(d)) if d["kind"] != "set" else d
            if d["kind"] == "set" or not d["unit"]:
                us.append("")
            else:
                us.append(other_prefix(self.rng, d["unit"]))
        return us

    def features(self, b, t, tg):
        t["features"] = []
        for _ in range(self.rng.choice([0, 0, 1, 2])):
            da, _a = self.array(b, "feat%d" % len(self.model["arrays"]))
            ft = tg.create_feature(da, self.rng.choice(list(self.nix.LinkType)))
            t["features"].append({"id": ft.id, "date": 1, "live": ft})

    def build(self):
        nix, rng, np, f = self.nix, self.rng, self.np, self.f
        for si in range(rng.randint(1, 2)):
            self.section(f, "sec%d" % si, 0)
        for bi in range(rng.randint(1, 2)):
            b = f.create_block("blk%d" % bi, "t.block")
            self.reg_entity(b, "Block")
            for gi in range(rng.randint(0, 2)):
                self.reg_entity(b.create_group("grp%d" % gi, "t.group"), "Group")
            self.sources(b, 0)
            arrs = [self.array(b, "arr%d" % i) for i in range(rng.randint(2, 5))]
            for ti in range(rng.randint(0, 3)):
                da, a = rng.choice(arrs)
                rank = len(a["shape"])
                refs = [(da, a)] + [x for x in arrs if len(x[1]["shape"]) == rank and x[1] is not a and len(x[1]["dims"]) == rank
                                    and [self.dim_unit(d) if d["kind"] != "set" else None for d in x[1]["dims"]] ==
                                    [self.dim_unit(d) if d["kind"] != "set" else None for d in a["dims"]]][:1]
                if rng.random() < 0.25:
                    refs = []
                tg = b.create_tag("tag%d" % ti, "t.tag", [0.0] * rank)
                t = {"path": path_of(tg), "position": [0.0] * rank, "extent": None, "units": [], "refs": [r[1]["path"] for r in refs]}
                if rng.random() < 0.6:
                    tg.extent = [1.0] * rank
                    t["extent"] = [1.0] * rank
                if refs:
                    us = self.tag_units(a)
                    if any(us):
                        tg.units = us
                        t["units"] = us
                    elif rank == 0:
                        pass
                    else:
                        # every entry unit-less: the library stores no list at all for an all-empty list, so write the entries explicitly
                        tg._h5group.write_data("units", us, nix.DataType.String)
                        t["units"] = us
                for r, _ in refs:
                    tg.references.append(r)
                self.features(b, t, tg)
                self.model["tags"].append(t)
                self.reg_entity(tg, "Tag")
            for mi in range(rng.randint(0, 3)):
                da, a = rng.choice(arrs)
                rank = len(a["shape"])
                npos = rng.randint(1, 4)
                one_d = rank == 1 and rng.random() < 0.5
                pshape = (npos,) if one_d else (npos, rank)
                pos = b.create_data_array("pos%d" % mi, "t.pos", data=np.zeros(pshape))
                for _ in pshape:
                    pos.append_set_dimension()
                self.model["arrays"].append({"path": path_of(pos), "shape": pshape, "dims": [{"kind": "set", "labels": None} for _ in pshape]})
                self.reg_entity(pos, "DataArray")
                mt = b.create_multi_tag("mtag%d" % mi, "t.mtag", pos)
                t = {"path": path_of(mt), "pos_shape": pshape, "ext_shape": None, "units": [], "refs": []}
                if rng.random() < 0.6:
                    ext = b.create_data_array("ext%d" % mi, "t.ext", data=np.ones(pshape))
                    for _ in pshape:
                        ext.append_set_dimension()
                    self.model["arrays"].append({"path": path_of(ext), "shape": pshape, "dims": [{"kind": "set", "labels": None} for _ in pshape]})
                    self.reg_entity(ext, "DataArray")
                    mt.extents = ext
                    t["ext_shape"] = pshape
                if rng.random() < 0.8:
                    us = self.tag_units(a)
                    if any(us):
                        mt.units = us
                    else:
                        mt._h5group.write_data("units", us, nix.DataType.String)
                    t["units"] = us
                    mt.references.append(da)
                    t["refs"] = [a["path"]]
                self.features(b, t, mt)
                self.model["mtags"].append(t)
                self.reg_entity(mt, "MultiTag")
        return self.model

    def sources(self, parent, depth):
        for i in range(self.rng.randint(0, 2) if depth else self.rng.randint(1, 2)):
            s = parent.create_source("src%d_%d" % (depth, i), "t.source")
            self.reg_entity(s, "Source")
            if depth < 2:
                self.sources(s, depth + 1)

    def section(self, parent, name, depth):
        s = parent.create_section(name, "t.section")
        self.reg_entity(s, "Section")
        sm = {"path": path_of(s), "props": []}
        for pi in range(self.rng.randint(0, 3)):
            p = s.create_property("p%d" % pi, self.rng.choice([[1, 2], [0.5], ["x"], [True]]))
            if self.rng.random() < 0.5:
                p.unit = "mV"
            sm["props"].append({"id": p.id, "name": p.name, "live": p})
        self.model["sections"].append(sm)
        if depth < 2:
            for i in range(self.rng.randint(0, 2)):
                self.section(s, "sub%d" % i, depth + 1)


# ------------------------------------------------------------------------------------------------------------
# injections: each returns a label or None when not applicable; applies the change to the file AND to the model
# ------------------------------------------------------------------------------------------------------------
def injections(nix, np):
    I = []

    def add(name, fn):
        I.append((name, fn))

    def pick_array(G, kind=None, min_len=0):
        c = []
        for a in G.model["arrays"]:
            for i, d in enumerate(a["dims"]):
                if (kind is None or d["kind"] == kind) and i < len(a["shape"]) and a["shape"][i] >= min_len and not d.get("linked_to"):
                    c.append((a, i))
        return G.rng.choice(c) if c else (None, None)

    def dim(G, a, i):
        return G.live[a["path"]].dimensions[i]

    def ticks_count(G):
        a, i = pick_array(G, "range")
        if a is None or not a["dims"][i]["ticks"]:
            return None
        t = list(a["dims"][i]["ticks"])
        t = t + [t[-1] + 1.0] if G.rng.random() < 0.5 or len(t) < 2 else t[:-1]
        if all(x < y for x, y in zip(t[:-1], t[1:])):
            dim(G, a, i).ticks = t
        else:       # already unsorted by an earlier injection: the setter would refuse, write like the repository's tests do
            dim(G, a, i)._h5group.write_data("ticks", t)
        a["dims"][i]["ticks"] = t
        return "range"
    add("ticks_count", ticks_count)

    def unsorted(G):
        a, i = pick_array(G, "range", 2)
        if a is None or len(a["dims"][i]["ticks"]) < 2:
            return None
        t = list(a["dims"][i]["ticks"])
        if G.rng.random() < 0.5:
            t[-1] = t[-2]                # a repeated tick is not strictly increasing
        else:
            t[0], t[-1] = t[-1], t[0]
        dim(G, a, i)._h5group.write_data("ticks", t)
        a["dims"][i]["ticks"] = t
        return "range"
    add("unsorted_ticks", unsorted)

    def no_ticks(G):
        a, i = pick_array(G, "range")
        if a is None or not a["dims"][i]["ticks"]:
            return None
        dim(G, a, i).ticks = []
        a["dims"][i]["ticks"] = []
        return "range"
    add("no_ticks", no_ticks)

    def linked_targets(G):
        return sorted({d["linked_to"] for a in G.model["arrays"] for d in a["dims"] if d.get("linked_to")})

    def linked_ticks_count(G):
        c = linked_targets(G)
        if not c:
            return None
        tp = G.rng.choice(c)
        t = next(a for a in G.model["arrays"] if a["path"] == tp)
        more = [max(t["data"] + [0.0]) + 1.0, max(t["data"] + [0.0]) + 2.0]
        G.live[t["path"]].append(np.array(more))
        t["data"] = list(t["data"]) + more
        t["shape"] = (len(t["data"]),)
        return "linked_range"
    add("linked_ticks_count", linked_ticks_count)

    def linked_unsorted(G):
        c = [p for p in linked_targets(G) if len(next(a for a in G.model["arrays"] if a["path"] == p)["data"]) >= 2]
        if not c:
            return None
        tp = G.rng.choice(c)
        t = next(a for a in G.model["arrays"] if a["path"] == tp)
        new = list(reversed(t["data"]))
        G.live[t["path"]].write_direct(np.array(new))
        t["data"] = new
        return "linked_range"
    add("linked_unsorted_ticks", linked_unsorted)

    def linked_unit(G):
        c = linked_targets(G)
        if not c:
            return None
        tp = G.rng.choice(c)
        t = next(a for a in G.model["arrays"] if a["path"] == tp)
        G.live[t["path"]].unit = G.rng.choice(NONSI)
        t["unit"] = G.live[t["path"]].unit
        return "linked_range"
    add("linked_non_si_unit", linked_unit)

    def labels_count(G):
        a, i = pick_array(G, "set")
        if a is None:
            return None
        n = a["shape"][i]
        lab = ["x%d" % k for k in range(n + 1 if G.rng.random() < 0.5 or n < 2 else n - 1)]
        dim(G, a, i).labels = lab
        a["dims"][i]["labels"] = lab
        return "set"
    add("labels_count", labels_count)

    def neg_interval(G):
        a, i = pick_array(G, "sample")
        if a is None:
            return None
        v = G.rng.choice([-1.0, -0.001, -1e9, -1e-9, -3e-15])
        dim(G, a, i).sampling_interval = v
        a["dims"][i]["interval"] = v
        return "sample"
    add("negative_interval", neg_interval)

    def no_interval(G):
        a, i = pick_array(G, "sample")
        if a is None:
            return None
        dim(G, a, i).sampling_interval = None
        a["dims"][i]["interval"] = None
        return "sample"
    add("no_interval", no_interval)

    def dim_unit(G):
        a, i = pick_array(G, G.rng.choice(["sample", "range"]))
        if a is None:
            return None
        u = G.rng.choice(NONSI)
        dim(G, a, i).unit = u
        a["dims"][i]["unit"] = dim(G, a, i).unit          # the model mirrors what is stored (a dimension stores the text as given)
        return a["dims"][i]["kind"]
    add("non_si_dimension_unit", dim_unit)

    def extra_dim(G):
        a = G.rng.choice(G.model["arrays"])
        da = G.live[a["path"]]
        k = G.rng.choice(["set", "sample", "range"])
        if k == "set":
            da.append_set_dimension()
            a["dims"].append({"kind": "set", "labels": None})
        elif k == "sample":
            da.append_sampled_dimension(1.0)
            a["dims"].append({"kind": "sample", "interval": 1.0, "unit": None})
        else:
            da.append_range_dimension([1.0, 2.0])
            a["dims"].append({"kind": "range", "ticks": [1.0, 2.0], "unit": None})
        return "surplus_" + k
    add("surplus_descriptor", extra_dim)

    def del_dims(G):
        a = G.rng.choice(G.model["arrays"])
        G.live[a["path"]].delete_dimensions()
        a["dims"] = []
        return "rank%d" % len(a["shape"])
    add("missing_descriptors", del_dims)

    def pick_tag(G, which, need_refs=False, need_units=False):
        # (a multi-tag whose positions link was removed by an earlier injection takes no further injection)
        c = [t for t in G.model[which] if (not need_refs or t["refs"]) and (not need_units or any(t["units"]))
             and not (which == "mtags" and t["pos_shape"] is None)]
        return G.rng.choice(c) if c else None

    def set_units(G, t, us):
        obj = G.live[t["path"]]
        if any(us):
            obj.units = us
        else:
            obj._h5group.write_data("units", us, nix.DataType.String)
        t["units"] = list(obj.units)                      # the model mirrors what is stored (tags store sanitised units)

    for which in ("tags", "mtags"):
        def unit_bad(G, which=which):
            t = pick_tag(G, which, need_units=True)
            if t is None:
                return None
            us = list(t["units"])
            k = G.rng.choice([i for i, u in enumerate(us) if u])
            us[k] = G.rng.choice(NONSI)
            set_units(G, t, us)
            return which
        add("non_si_%s_unit" % which[:-1], unit_bad)

        def unit_unconv(G, which=which):
            t = pick_tag(G, which, need_refs=True, need_units=True)
            if t is None:
                return None
            us = list(t["units"])
            k = G.rng.choice([i for i, u in enumerate(us) if u])
            m = re.fullmatch(r"(.+?)(\^-?\d+)?", us[k])
            cand = [b for b in BASES if not convertible(b + (m.group(2) or ""), us[k])]
            us[k] = G.rng.choice(PREFIXES) + G.rng.choice(cand) + (m.group(2) or "") if G.rng.random() < 0.7 else us[k].split("^")[0] + G.rng.choice(["^4", "^-3"])
            set_units(G, t, us)
            return which
        add("unconvertible_%s_unit" % which[:-1], unit_unconv)

        def units_len(G, which=which):
            t = pick_tag(G, which, need_refs=True)
            if t is None or not t["units"]:
                return None
            us = list(t["units"])
            us = us + ["ms"] if G.rng.random() < 0.5 or len(us) < 2 else us[:-1]
            set_units(G, t, us)
            return which
        add("%s_units_length" % which[:-1], units_len)

    for which in ("tags", "mtags"):
        def add_ref_other_rank(G, which=which):
            # a second reference whose rank differs: position / extent / unit lengths can then match at most one of the references
            t = pick_tag(G, which, need_refs=True)
            if t is None:
                return None
            have = {len(next(a for a in G.model["arrays"] if a["path"] == r)["shape"]) for r in t["refs"]}
            blk = t["path"].split("/")[2]
            cand = [a for a in G.model["arrays"] if a["path"].split("/")[2] == blk and len(a["shape"]) not in have
                    and a["path"] not in t["refs"] and a["path"] in G.live]
            if not cand:
                return None
            a = G.rng.choice(cand)
            G.live[t["path"]].references.append(G.live[a["path"]])
            t["refs"] = t["refs"] + [a["path"]]
            return which
        add("%s_reference_of_other_rank" % which[:-1], add_ref_other_rank)

    def tag_pos_len(G):
        t = pick_tag(G, "tags", need_refs=True)
        if t is None:
            return None
        p = t["position"] + [1.0] if G.rng.random() < 0.5 or len(t["position"]) < 2 else t["position"][:-1]
        G.live[t["path"]].position = p
        t["position"] = p
        return "tag"
    add("tag_position_length", tag_pos_len)

    def tag_ext_len(G):
        t = pick_tag(G, "tags", need_refs=G.rng.random() < 0.8)
        if t is None:
            return None
        e = list(t["extent"] or [1.0] * len(t["position"]))
        e = e + [1.0] if G.rng.random() < 0.5 or len(e) < 2 else e[:-1]
        G.live[t["path"]].extent = e
        t["extent"] = e
        return "tag"
    add("tag_extent_length", tag_ext_len)

    def no_position(G):
        t = pick_tag(G, "tags")
        if t is None:
            return None
        G.live[t["path"]].position = []
        t["position"] = []
        return "tag"
    add("no_position", no_position)

    def new_array(G, t, shape, tag):
        b = G.live[t["path"]]._parent
        nm = "%s%d" % (tag, len(G.model["arrays"]))
        da = b.create_data_array(nm, "t.inj", dtype=np.float64, shape=shape) if 0 in shape else b.create_data_array(nm, "t.inj", data=np.zeros(shape))
        for _ in shape:
            da.append_set_dimension()
        G.model["arrays"].append({"path": path_of(da), "shape": tuple(shape), "dims": [{"kind": "set", "labels": None} for _ in shape]})
        G.reg_entity(da, "DataArray")
        return da

    def mtag_no_positions(G):
        t = pick_tag(G, "mtags")
        if t is None:
            return None
        shape = (0,) if len(t["pos_shape"]) == 1 else (0, t["pos_shape"][1])
        G.live[t["path"]].positions = new_array(G, t, shape, "emptypos")
        t["pos_shape"] = shape
        return "mtag"
    add("no_positions", mtag_no_positions)

    def mtag_positions_gone(G):
        """the multi-tag has no positions array any more (what deleting that array leaves behind)"""
        t = pick_tag(G, "mtags")
        if t is None or t["pos_shape"] is None:
            return None
        g = G.live[t["path"]]._h5group.group
        if "positions" not in g:
            return None
        del g["positions"]
        t["pos_shape"] = None
        return "mtag"
    add("positions_link_missing", mtag_positions_gone)

    def mtag_pos_dim(G):
        t = pick_tag(G, "mtags", need_refs=True)
        if t is None:
            return None
        ps = t["pos_shape"]
        cur = 1 if len(ps) == 1 else ps[1]
        new = G.rng.choice([x for x in (1, 2, 3, 4) if x != cur])
        shape = (ps[0],) if new == 1 and G.rng.random() < 0.5 else (ps[0], new)
        G.live[t["path"]].positions = new_array(G, t, shape, "wrongpos")
        t["pos_shape"] = shape
        return "mtag"
    add("positions_width", mtag_pos_dim)

    def mtag_ext_shape(G):
        t = pick_tag(G, "mtags", need_refs=G.rng.random() < 0.8)
        if t is None:
            return None
        ps = t["pos_shape"]
        choice = G.rng.choice(["rows", "width"])
        if choice == "rows":
            shape = (ps[0] + 1,) + tuple(ps[1:])
        else:
            cur = 1 if len(ps) == 1 else ps[1]
            shape = (ps[0], cur + 1)
        G.live[t["path"]].extents = new_array(G, t, shape, "wrongext")
        t["ext_shape"] = shape
        return "mtag_" + choice
    add("extents_shape", mtag_ext_shape)

    for attr, key in (("type", "type"), ("name", "name"), ("created_at", "date"), ("entity_id", "id")):
        def missing(G, attr=attr, key=key):
            kinds = sorted({e["kind"] for e in G.model["entities"]})
            kind = G.rng.choice(kinds)
            e = G.rng.choice([e for e in G.model["entities"] if e["kind"] == kind])
            if e.get(key) is None:
                return None
            G.live[e["path"]]._h5group.set_attr(attr, None)
            e[key] = None
            return kind
        add("missing_" + key, missing)

    def prop_missing(G):
        c = [(s, i) for s in G.model["sections"] for i in range(len(s["props"]))]
        if not c:
            return None
        s, i = G.rng.choice(c)
        key, attr = G.rng.choice([("name", "name"), ("id", "entity_id")])
        if s["props"][i].get(key) is None:
            return None
        s["props"][i]["live"]._h5group.set_attr(attr, None)
        s["props"][i][key] = None
        return "property_" + key
    add("property_missing_name_or_id", prop_missing)

    def feature_missing(G):
        c = [(t, i) for w in ("tags", "mtags") for t in G.model[w] for i in range(len(t["features"]))]
        if not c:
            return None
        t, i = G.rng.choice(c)
        key, attr = G.rng.choice([("date", "created_at"), ("id", "entity_id")])
        if t["features"][i].get(key) is None:
            return None
        t["features"][i]["live"]._h5group.set_attr(attr, None)
        t["features"][i][key] = None
        return "feature_" + key
    add("feature_missing_date_or_id", feature_missing)
    return I


# ------------------------------------------------------------------------------------------------------------
def observe(f):
    res = f.validate()
    got = set()
    for obj, msgs in res["errors"].items():
        try:
            p = path_of(obj)
        except Exception:
            p = "/" if type(obj).__name__ == "File" else repr(obj)
        for m in msgs:
            got.add((p, m))
    return got


def kind_of(msg):
    return re.sub(r"\d+", "#", msg)[:60]


def judge(ctx, G, VE, f, injected, rep, okinds):
    model = G.model
    M, O = reference(model, VE)
    info = dict(rep, injected=injected)
    try:
        got = observe(f)
    except Exception as e:
        from ..core import short_trace, raised_in_library
        if not raised_in_library(e):
            raise
        idk = [l.split(":", 1)[1] for l in injected if l.startswith("missing_id:") or l.endswith((":property_id", ":feature_id"))]
        datek = [l.split(":", 1)[1] for l in injected if l.startswith("missing_date:") or l.endswith(":feature_date")]
        cause = "missing_id" if idk else ("missing_date" if datek else "other")
        who = idk or datek or ["-"]
        ctx.violation("validate_raises:%s:%s:%s" % (cause, who[0], type(e).__name__), dict(info, error=repr(e)[:200], trace=short_trace(e)), rep)
        ctx.case((tuple(sorted(injected)), "raises"))
        return False
    ctx.count("validations_compared")
    paths = {e["path"]: e["kind"] for e in model["entities"]}
    bad = False
    for p, m in sorted(M - got):
        bad = True
        ctx.violation("under_report:%s:%s" % (kind_of(m), paths.get(p, "File" if p == "/" else "?")), dict(info, object=p, expected=m, reported_for_object=sorted(x[1] for x in got if x[0] == p)), rep)
    for p, m in sorted(got - M - O):
        bad = True
        ctx.violation("over_report:%s:%s:%s" % (kind_of(m), paths.get(p, "File" if p == "/" else "?"), "well_formed_file" if not injected else "after_injection"),
                      dict(info, object=p, reported=m, expected_for_object=sorted(x[1] for x in M if x[0] == p)), rep)
    ctx.count("errors_expected", len(M))
    ctx.count("errors_matched", len(M & got))
    ctx.count("optional_reported", len(got & O))
    ctx.case((tuple(sorted(injected)), tuple(sorted(okinds)), "ok" if not bad else "differs", len(M) > len(injected)),
             sample={"injected": injected, "expected": sorted(M)[:6], "optional_reported": sorted(got & O)[:3]} if injected else None)
    return True


def run_file(ctx, nix, np, fi, spec, rep):
    from .. import env, clock
    VE = nix.validator.ValidationError
    rng = ctx.rng("c14", fi)
    clock.install()
    path = env.scratch_file("c14_%d.nix" % ctx.shard)
    f = nix.File.open(path, nix.FileMode.Overwrite)
    try:
        G = Gen(nix, np, rng, f)
        G.build()
        ctx.count("files")
        if not judge(ctx, G, VE, f, [], dict(rep, round=-1), []):
            return
        INJ = injections(nix, np)
        for r in range(spec["rounds"]):
            rrng = ctx.rng("c14", fi, r)
            G.rng = rrng
            n = rrng.choice([1, 1, 2])
            done, okinds = [], []
            for _ in range(n):
                for _try in range(6):
                    name, fn = rrng.choice(INJ)
                    try:
                        lab = fn(G)
                    except Exception:
                        # an entity that lost its id / date / name through the FIRST injection of this round can no longer be used by a
                        # second one (e.g. as the target of a new link): that is the harness's sequence, not a validator event
                        if any(d.startswith(("missing_id", "missing_date", "property_missing", "feature_missing", "missing_name")) for d in done):
                            ctx.count("second_injection_not_applicable_after_missing_attribute")
                            lab = None
                            break
                        raise
                    if lab is not None:
                        done.append("%s:%s" % (name, lab))
                        okinds.append(lab)
                        ctx.count("injection:" + name)
                        break
            if not done:
                continue
            ok = judge(ctx, G, VE, f, done, dict(rep, round=r), okinds)
            if not ok or any(d.startswith(("missing_id", "missing_date", "property_missing", "feature_missing", "missing_name")) for d in done):
                # a file whose entities lost their id / date / name is not used for further rounds (entities can no longer be addressed)
                break
    finally:
        try:
            f.close()
        except Exception:
            pass


def run_shard(spec, ctx):
    import numpy as np
    from .. import env
    nix = env.import_nixio()
    for fi in range(spec["files"]):
        rep = {"shard": ctx.shard, "file": fi, "rounds": spec["rounds"]}
        ctx.guarded("file", run_file, ctx, nix, np, fi, spec, rep)


def finish(m, tier):
    c = m["counters"]
    if not c.get("validations_compared") or not c.get("errors_matched"):
        m["inconclusive"].append("no validation result was compared / no expected error was ever matched")


def replay(w, ctx):
    import numpy as np
    from .. import env
    nix = env.import_nixio()
    ctx.shard = w.get("shard", 0)
    ctx.case(("replay",))
    ctx.case(("replay", 2))
    run_file(ctx, nix, np, w["file"], {"rounds": w.get("round", 0) + 1}, dict(w))
