"""C19 - timestamps: creation time is fixed, update time follows attribute changes.

The library clock (nixio.util.now_int, looked up at call time by every timestamp writer) is replaced by a
controlled counter that stands still during an operation and advances by a chosen step between operations.
Before and after EVERY operation the timestamp table of ALL entities of the file (file, blocks, groups,
arrays, frames, tags, multi-tags, features, sources and sections at any depth, properties) is read, and the
monitor asserts, for entities present before and after:

  I1  created_at changes only by force_created_at on that very entity
  I2  updated_at never decreases (the clock never goes back); excepted: the forced entity itself, and an entity whose
      update time had been forced beyond the current clock value
  I3  automatic updating off: no timestamp changes at all, except by a force call on that entity
  I4  automatic updating on, operation = change of a listed descriptive attribute of entity E:
      E.updated_at == clock value, and no timestamp of any other entity changes
  I5  force_*(t) then read == t, nothing else changes; also after reopening (RO/RW, switch on or off)
"""
ID = "C19"
LEVEL = "exploration"
TECHNIQUE = ("runtime invariant monitor under a controlled logical clock: timestamp table of all entities read before/after every "
             "operation; rules I1-I5 (creation time fixed, update time monotone, switch off = frozen, listed attribute change = "
             "that entity's update time := clock and no other's, force/read round trip incl. reopen)")
RULE = ("Case = one operation applied to a content-bearing file (fixture with every entity kind + 10-40 random operations) "
        "under a frozen clock value, with the timestamp table of all entities (60-150) compared before/after.  Operation "
        "classes: (listed) set one of the statement's descriptive attributes on a randomly picked entity of a kind that has "
        "it; (force) force_created_at / force_updated_at with a whole second from {0, 1, 2^31-1, 2^31, month ends, leap "
        "days, random in [0, 4102444800]} or without argument; (other) any other public mutation - random generator "
        "operations and the catalogue of mutators - judged by I1-I3 only.  Automatic updating is chosen at open time and "
        "toggled mid-history; clock steps 0, 1, 1000, 10^7; bursts of 2-4 listed changes / forced update times on one entity within one clock second "
        "through one long-lived handle; shards run under six different process time zones.  Distinct by (operation class, entity kind, attribute or "
        "operation name, switch on|off, clock step class); trivial = none.")
ASSUMPTIONS = ["the library reads the time only through nixio.util.now_int / nixio.util.util.now_int (both rebound; a timestamp written "
               "from another clock source would show up as a value that is not the logical clock's)",
               "operations outside the statement's list are judged only by 'created_at fixed' and 'updated_at monotone' (A15)",
               "Property setters (unit, definition, ...) are not in the judged list: nixio/property.py is not among the anchors and "
               "overrides the generic setters without touching updated_at (observed, reported in the side channel) (A22)",
               "'the current time' = the value the controlled clock returns during the operation (the clock stands still inside one operation)"]

LAYER_B = ['C19']      # monitors of nixmon/passive/plugin.py run over the repository's own tests in the thorough tier
NSHARDS = 16
TMAX = 4102444800      # 2100-01-01


def plan(tier, seed):
    n = 3 if tier == "quick" else 30
    return [{"i": i, "files": n, "ops": 70 if tier == "quick" else 160} for i in range(NSHARDS)]


class Clock:
    def __init__(self, t):
        self.t = t
        self.calls = 0

    def now(self):
        self.calls += 1
        return self.t


def install_clock(clk):
    import nixio.util
    import nixio.util.util
    nixio.util.now_int = clk.now
    nixio.util.util.now_int = clk.now


def special_times(rng):
    import calendar
    pool = [0, 1, 59, 86399, 86400, 2 ** 31 - 1, 2 ** 31, TMAX, TMAX - 1, 951782400, 951868799]
    y = rng.randint(1970, 2099)
    m = rng.randint(1, 12)
    last = calendar.monthrange(y, m)[1]
    pool.append(calendar.timegm((y, m, last, 23, 59, 59)))
    ly = rng.choice([1972, 2000, 2024, 2096])
    pool.append(calendar.timegm((ly, 2, 29, rng.randint(0, 23), rng.randint(0, 59), rng.randint(0, 59))))
    pool.append(rng.randint(0, TMAX))
    pool.append(rng.randint(0, TMAX))
    return pool


def entities(nix, f):
    """[(key, kind, handle)] of everything that carries timestamps - own walk (containers only)."""
    out = [("File:", "File", f)]

    def add(kind, x):
        out.append(("%s:%s" % (kind, x.id), kind, x))

    def srcs(cont):
        for s in cont:
            add("Source", s)
            srcs(s.sources)

    def secs(cont):
        for s in cont:
            add("Section", s)
            for p in s.props:
                add("Property", p)
            secs(s.sections)
    for b in f.blocks:
        add("Block", b)
        for x in b.data_arrays:
            add("DataArray", x)
        for x in b.data_frames:
            add("DataFrame", x)
        for x in list(b.tags) + list(b.multi_tags):
            add(type(x).__name__, x)
            for ft in x.features:
                add("Feature", ft)
        for x in b.groups:
            add("Group", x)
        srcs(b.sources)
    secs(f.sections)
    return out


def table(ents):
    t = {}
    for key, kind, h in ents:
        t[key] = (h.created_at, h.updated_at)
    return t


# ---- listed attribute changes: kind -> [(attribute label, fn(rng, nix, entity, file))] ----------------------------------------
def other(rng, pool, cur):
    c = [v for v in pool if v != cur]
    return rng.choice(c)


def listed_ops(nix):
    import numpy as np
    L = {}

    def reg(kind, label, fn):
        L.setdefault(kind, []).append((label, fn))
    for kind in ("Block", "Group", "DataArray", "DataFrame", "Tag", "MultiTag", "Source", "Section"):
        reg(kind, "type", lambda r, e, f: setattr(e, "type", other(r, ["ta", "tb", "t.ü", "nix.x"], e.type)))
        reg(kind, "definition", lambda r, e, f: setattr(e, "definition", other(r, [None, "d1", "d2 ü", ""], e.definition)))
    reg("DataArray", "label", lambda r, e, f: setattr(e, "label", other(r, [None, "l1", "l2"], e.label)))
    reg("DataArray", "unit", lambda r, e, f: setattr(e, "unit", other(r, [None, "mV", "s", "kHz"], e.unit)))
    reg("DataArray", "polynom_coefficients", lambda r, e, f: setattr(e, "polynom_coefficients", other(r, [None, [1.0, 2.0], [0.5], (3.0, 0.0, 1.0)], None)))
    reg("DataArray", "expansion_origin", lambda r, e, f: setattr(e, "expansion_origin", other(r, [None, 0.5, 2.0, -1.0], e.expansion_origin)))
    reg("DataArray", "append_set_dimension", lambda r, e, f: e.append_set_dimension(r.choice([None, ["a", "b"]])))
    reg("DataArray", "append_sampled_dimension", lambda r, e, f: e.append_sampled_dimension(r.choice([1.0, 0.25]), unit=r.choice([None, "s"])))
    reg("DataArray", "append_range_dimension", lambda r, e, f: e.append_range_dimension(r.choice([None, [1.0, 2.0]])))

    def using_self(r, e, f):
        if e.dtype.kind not in "fiu" or 0 in e.shape or not len(e.shape):
            raise ValueError("not applicable")        # (raised here, not in the library: counted as not applicable)
        e.append_range_dimension_using_self()
    reg("DataArray", "append_range_dimension_using_self", using_self)
    reg("DataFrame", "units", lambda r, e, f: setattr(e, "units", [r.choice([None, "mV", "s"]) for _ in e.column_names]))
    reg("Tag", "position", lambda r, e, f: setattr(e, "position", other(r, [[1.0], [0.0, 2.0], [3.5, 1.0, 2.0]], list(e.position))))
    reg("Tag", "extent", lambda r, e, f: setattr(e, "extent", other(r, [None, [1.0], [0.5, 2.0]], list(e.extent) or None)))
    for kind in ("Tag", "MultiTag"):
        reg(kind, "units", lambda r, e, f: setattr(e, "units", other(r, [None, ["mV"], ["s", "ms"]], list(e.units) or None)))

    def clear_units(r, e, f):
        if not list(e.units):
            raise ValueError("not applicable")        # (raised here: nothing to clear)
        e.units = r.choice([None, [], ()])
    for kind in ("Tag", "MultiTag"):
        reg(kind, "units_cleared", clear_units)

    def clear_extent(r, e, f):
        if not list(e.extent):
            raise ValueError("not applicable")
        e.extent = r.choice([None, [], ()])
    reg("Tag", "extent_cleared", clear_extent)

    def numeric_arrays(e):
        b = e._parent
        return [d for d in b.data_arrays if d.dtype.kind in "fiu"]
    reg("MultiTag", "positions", lambda r, e, f: setattr(e, "positions", r.choice([d for d in numeric_arrays(e) if d.id != e.positions.id])))
    reg("MultiTag", "extents", lambda r, e, f: setattr(e, "extents", r.choice([None] + numeric_arrays(e)) if e.extents is not None else r.choice(numeric_arrays(e))))
    reg("Section", "reference", lambda r, e, f: setattr(e, "reference", other(r, [None, "r1", "r2"], e.reference)))
    reg("Section", "repository", lambda r, e, f: setattr(e, "repository", other(r, [None, "repo1", "repo2"], e.repository)))
    reg("Feature", "link_type", lambda r, e, f: setattr(e, "link_type", other(r, [nix.LinkType.Indexed, nix.LinkType.Untagged], e.link_type)))

    def feat_data(r, e, f):
        b = e._parent._parent
        e.data = r.choice([d for d in b.data_arrays if d.id != e.data.id])
    reg("Feature", "data", feat_data)
    return L


class Case:
    def __init__(self, ctx, nix, path, rng, rep, nops):
        self.ctx, self.nix, self.path, self.rng, self.rep, self.nops = ctx, nix, path, rng, rep, nops
        self.log = []

    def viol(self, mech, detail):
        self.ctx.violation(mech, dict(detail, case=self.rep, recent_ops=self.log[-6:]), dict(self.rep, upto=len(self.log)))

    def judge(self, t0, t1, auto, klass, opname, T, target=None, forced=None):
        """t0/t1 tables; target = key of the entity whose listed attribute was changed; forced = (key, field, value)"""
        ctx = self.ctx
        for key in t0:
            if key not in t1:
                continue
            (c0, u0), (c1, u1) = t0[key], t1[key]
            kind = key.split(":")[0]
            ctx.count("timestamp_pairs_compared")
            is_forced_c = forced is not None and forced[0] == key and forced[1] == "created_at"
            is_forced_u = forced is not None and forced[0] == key and forced[1] == "updated_at"
            if c1 != c0 and not is_forced_c:
                self.viol("created_at_changed:%s:by_%s:%s" % (kind, klass, opname if klass != "other" else opname.split(":")[0]),
                          {"entity": key, "before": c0, "after": c1, "clock": T, "auto": auto})
            if not is_forced_u:
                if u1 < u0 and u0 <= T:      # (a value forced into the future may be followed by the clock value)
                    self.viol("updated_at_decreased:%s:by_%s:%s" % (kind, klass, opname.split(":")[0]), {"entity": key, "before": u0, "after": u1, "clock": T, "auto": auto})
                if not auto and u1 != u0:
                    self.viol("auto_off_but_updated_at_changed:%s:by_%s:%s" % (kind, klass, opname.split(":")[0]), {"entity": key, "before": u0, "after": u1, "clock": T})
                if auto and klass == "listed" and key != target and u1 != u0:
                    self.viol("other_entity_updated:%s:when_%s" % (kind, opname), {"entity": key, "target": target, "before": u0, "after": u1, "clock": T})
                if klass == "force" and u1 != u0:
                    self.viol("force_changed_other_timestamp:%s.updated_at:by_%s" % (kind, opname), {"entity": key, "forced": forced, "before": u0, "after": u1})
                if u1 != u0 and u1 != T and not (klass == "other" and forced):
                    self.viol("updated_at_not_clock_value:%s:by_%s:%s" % (kind, klass, opname.split(":")[0]), {"entity": key, "after": u1, "clock": T})
        if klass == "listed" and auto and target in t1:
            ctx.count("listed_changes_judged")
            if t1[target][1] != T:
                self.viol("listed_change_did_not_set_updated_at:%s" % opname, {"entity": target, "updated_at": t1[target][1], "clock": T, "before": t0[target][1]})
        if forced is not None and forced[0] in t1:
            ctx.count("force_round_trips")
            got = t1[forced[0]][0 if forced[1] == "created_at" else 1]
            if got != forced[2]:
                tcls = "zero" if forced[2] == 0 else ("clock" if forced[3] else "value")
                self.viol("force_round_trip:%s.%s:%s" % (forced[0].split(":")[0], forced[1], tcls), {"entity": forced[0], "forced_to": forced[2], "read": got})

    def run(self, upto=None):
        nix, rng, ctx = self.nix, self.rng, self.ctx
        from .. import catalog, gen
        clk = Clock(rng.choice([1_500_000_000, 1_000, 86_400 * 365 * 40, 3_900_000_000]))
        install_clock(clk)
        auto = rng.random() < 0.7
        f = catalog.build_fixture(nix, self.path, rng, rng.randint(10, 40))
        f.close()
        f = nix.File.open(self.path, nix.FileMode.ReadWrite, auto_update_timestamps=auto)
        ctx.count("auto_%s_at_open" % ("on" if auto else "off"))
        LISTED = listed_ops(nix)
        muts = catalog.mutators(nix)
        B = gen.Builder(nix, f, rng)
        forced_model = {}          # key -> {"created_at": t, "updated_at": t}   (last forced and not overwritten since)
        sigs = []
        kept = {}                  # key -> long-lived handle that has already read its timestamps (a second handle to every entity)
        burst = None               # {"key", "left"}: listed changes and forced update times on one entity, same second, same long-lived handle
        try:
            for i in range(self.nops):
                if upto is not None and i >= upto:
                    break
                step = rng.choice([0, 0, 1, 1, 1000, 10 ** 7])
                if burst is not None:
                    step = 0            # a burst: several operations on ONE entity within the same clock second
                clk.t += step
                T = clk.t
                stepc = {0: "0", 1: "1"}.get(step, "big")
                if rng.random() < 0.06:
                    auto = not auto
                    f.auto_update_timestamps = auto
                    ctx.count("switch_toggled")
                    self.log.append("toggle auto -> %s" % auto)
                if f.auto_update_timestamps != auto:
                    self.viol("auto_switch_not_reported", {"expected": auto, "got": f.auto_update_timestamps})
                ents = entities(nix, f)
                t0 = table(ents)
                for key, kind, h in ents:
                    kept.setdefault(key, h)
                r = rng.random()
                klass, opname, target, forced = "other", "?", None, None
                if burst is not None and (burst["left"] <= 0 or burst["key"] not in t0):
                    burst = None
                if burst is None and rng.random() < 0.07:
                    cand = [e for e in ents if e[1] in LISTED]
                    if cand:
                        burst = {"key": rng.choice(cand)[0], "left": rng.randint(2, 4)}
                        ctx.count("bursts_started")
                try:
                    if burst is not None:
                        burst["left"] -= 1
                        key = burst["key"]
                        kind = key.split(":")[0]
                        fresh = [e for e in ents if e[0] == key][0][2]
                        ent = kept.get(key, fresh) if rng.random() < 0.75 else fresh
                        if rng.random() < 0.55:
                            klass = "listed"
                            label, fn = rng.choice(LISTED[kind])
                            opname = "%s.%s" % (kind, label)
                            target = key
                            fn(rng, ent, f)
                            forced_model.get(key, {}).pop("updated_at", None) if auto else None
                        else:
                            klass = "force"
                            t = rng.choice(special_times(rng))
                            opname = "force_updated_at"
                            forced = (key, "updated_at", t, False)
                            ent.force_updated_at(t)
                            forced_model.setdefault(key, {})["updated_at"] = t
                        opname += ":burst"
                        ctx.count("burst_ops")
                    elif r < 0.45:
                        klass = "listed"
                        kinds = [k for k in LISTED if any(e[1] == k for e in ents)]
                        kind = rng.choice(kinds)
                        key, _, ent = rng.choice([e for e in ents if e[1] == kind])
                        if rng.random() < 0.4:
                            ent = kept.get(key, ent)        # through the long-lived handle of that entity
                        label, fn = rng.choice(LISTED[kind])
                        opname = "%s.%s" % (kind, label)
                        target = key
                        fn(rng, ent, f)
                        forced_model.get(key, {}).pop("updated_at", None) if auto else None
                    elif r < 0.65:
                        klass = "force"
                        key, kind, ent = rng.choice(ents)
                        field = rng.choice(["created_at", "updated_at"])
                        meth = getattr(ent, "force_" + field, None)
                        if meth is None:
                            ctx.count("no_force_method:%s" % kind)
                            continue
                        noarg = rng.random() < 0.15
                        t = T if noarg else rng.choice(special_times(rng))
                        opname = "force_%s" % field
                        forced = (key, field, t, noarg)
                        meth() if noarg else meth(t)
                        forced_model.setdefault(key, {})[field] = t
                    elif r < 0.85:
                        name, exc = B.step()
                        opname = name
                        if exc is not None:
                            ctx.observe("generator_op_raised:%s:%s" % (name, type(exc).__name__))
                    else:
                        label, kind, member, fn = rng.choice(muts)
                        opname = "catalogue:" + label
                        if "force_" in member or "copy" in label:
                            # same-file copies with kept ids give two entities one id (A8): the table would be ambiguous
                            continue
                        try:
                            fn(catalog.targets(nix, f, rng.randrange(2)))
                        except Exception as e:
                            ctx.count("catalogue_op_not_applicable")
                            opname += ":raised_" + type(e).__name__
                except Exception as e:
                    from ..core import raised_in_library
                    if klass == "listed" and not raised_in_library(e):
                        ctx.count("listed_op_not_applicable")
                        continue
                    ctx.observe("op_raised:%s:%s" % (opname, type(e).__name__), repr(e)[:200])
                    klass = "other"
                    target, forced = None, None
                self.log.append("%s [auto=%s, T=%d]" % (opname, auto, T))
                ents1 = entities(nix, f)
                t1 = table(ents1)
                ctx.count("ops:" + klass)
                # an update moved by this op invalidates the forced-model entry for that entity
                for key in t1:
                    if key in t0 and t0[key][1] != t1[key][1] and not (forced and forced[0] == key and forced[1] == "updated_at"):
                        forced_model.get(key, {}).pop("updated_at", None)
                self.judge(t0, t1, auto, klass, opname, T, target, forced)
                # the time of an entity is a property of the entity, not of the handle: a handle obtained earlier reads the same values
                for key in list(kept):
                    if key not in t1:
                        del kept[key]
                        continue
                    try:
                        old = (kept[key].created_at, kept[key].updated_at)
                    except Exception as e:
                        old = ("raises", type(e).__name__)
                    ctx.count("kept_handle_reads")
                    if old != t1[key]:
                        fld = "created_at" if old[0] != t1[key][0] else "updated_at"
                        self.viol("earlier_handle_reads_other_time:%s.%s:%s" % (key.split(":")[0], fld, klass),
                                  {"entity": key, "earlier_handle": old, "fresh_handle": t1[key], "op": opname})
                        del kept[key]
                kind_of = (target or (forced[0] if forced else "")).split(":")[0]
                sigs.append((klass, kind_of, opname.split(":raised")[0], auto, stepc))
                # occasionally: reopen and check that forced values survive, and that nothing moved
                if rng.random() < 0.05 or i == self.nops - 1:
                    before = t1
                    f.close()
                    mode = rng.choice([nix.FileMode.ReadOnly, nix.FileMode.ReadWrite])
                    f = nix.File.open(self.path, mode, auto_update_timestamps=auto)
                    after = table(entities(nix, f))
                    ctx.count("reopens")
                    for key in before:
                        if key not in after:
                            self.viol("entity_missing_after_reopen:%s" % key.split(":")[0], {"entity": key})
                        elif before[key] != after[key]:
                            self.viol("timestamps_differ_after_reopen:%s" % key.split(":")[0], {"entity": key, "before": before[key], "after": after[key], "mode": str(mode)})
                    for key, flds in forced_model.items():
                        for fld, t in flds.items():
                            if key in after:
                                ctx.count("forced_values_checked_after_reopen")
                                got = after[key][0 if fld == "created_at" else 1]
                                if got != t:
                                    self.viol("forced_value_lost_after_reopen:%s.%s" % (key.split(":")[0], fld), {"entity": key, "forced_to": t, "read": got})
                    if mode == nix.FileMode.ReadOnly:
                        f.close()
                        f = nix.File.open(self.path, nix.FileMode.ReadWrite, auto_update_timestamps=auto)
                    B.f = f
                    kept = {}
                    self.log.append("reopen %s" % mode)
            return sigs
        finally:
            ctx.count("clock_reads", clk.calls)
            try:
                f.close()
            except Exception:
                pass


def round_trip_sweep(ctx, nix, path, n):
    """force/read round trip for many whole seconds on one entity of every kind (value space sweep)."""
    import calendar
    from .. import catalog
    rng = ctx.rng("c19sweep")
    clk = Clock(1_600_000_000)
    install_clock(clk)
    f = catalog.build_fixture(nix, path)
    try:
        ents = entities(nix, f)
        bykind = {}
        for key, kind, h in ents:
            bykind.setdefault(kind, h)
        times = [0, 1, 2 ** 31 - 1, 2 ** 31, TMAX]
        for y in range(1970, 2101, 1 if n > 500 else 10):
            for m in (1, 2, 3, 12):
                times.append(calendar.timegm((y, m, calendar.monthrange(y, m)[1], 23, 59, 59)))
        times += [rng.randint(0, TMAX) for _ in range(n)]
        for t in times:
            for kind, h in bykind.items():
                for fld in ("created_at", "updated_at"):
                    meth = getattr(h, "force_" + fld, None)
                    if meth is None:
                        continue
                    meth(t)
                    got = getattr(h, fld)
                    ctx.count("sweep_round_trips")
                    if got != t:
                        cls = "zero" if t == 0 else ("le_2^31" if t < 2 ** 31 else "gt_2^31")
                        ctx.violation("force_round_trip_sweep:%s.%s:%s" % (kind, fld, cls), {"forced_to": t, "read": got}, {"sweep": True})
        ctx.case(("sweep", len(times)), sample={"sweep_of_whole_seconds": len(times), "first": times[:8], "kinds": sorted(bykind)})
    finally:
        f.close()


def real_clock(ctx, nix, path, tz):
    """Without the logical clock: 'the current time' a stamp is set to is the POSIX time of the moment (seconds since
    1970-01-01 UTC), whatever time zone the process runs in - read back within a second or two of time.time()."""
    import time
    f = nix.File.open(path, nix.FileMode.Overwrite)
    try:
        t0 = int(time.time())
        b = f.create_block("b", "t")
        da = b.create_data_array("d", "t", data=[1.0])
        sec = f.create_section("s", "t")
        t1 = int(time.time())
        for kind, e in (("File", f), ("Block", b), ("DataArray", da), ("Section", sec)):
            for field in ("created_at", "updated_at"):
                got = getattr(e, field)
                ctx.count("real_clock_stamps_read")
                if not (t0 - 1 <= got <= t1 + 1):
                    ctx.violation("stamp_is_not_the_posix_time:%s.%s:zone_offset_class_%s" % (kind, field, "utc" if tz == "UTC" else "non_utc"),
                                  {"zone": tz, "stamp": got, "time.time()": [t0, t1], "difference_s": got - t0}, {"real_clock": True})
        time.sleep(1.1)
        t2 = int(time.time())
        da.label = "x"
        got = da.updated_at
        if not (t2 - 1 <= got <= int(time.time()) + 1):
            ctx.violation("stamp_is_not_the_posix_time:DataArray.updated_at_after_label:zone_offset_class_%s" % ("utc" if tz == "UTC" else "non_utc"),
                          {"zone": tz, "stamp": got, "time.time()": t2, "difference_s": got - t2}, {"real_clock": True})
        ctx.case(("real_clock", tz), sample={"real_clock_zone": tz})
    finally:
        f.close()


ZONES = ["UTC", "Asia/Kolkata", "America/St_Johns", "Pacific/Auckland", "America/Los_Angeles", "Europe/Berlin"]


def run_shard(spec, ctx):
    import os
    import time
    from .. import env
    # configuration: the process time zone (timestamps are UTC text; the round trip must not depend on the local zone)
    tz = ZONES[spec["i"] % len(ZONES)]
    os.environ["TZ"] = tz
    time.tzset()
    ctx.count("timezone:" + tz)
    nix = env.import_nixio()
    path = env.scratch_file("c19_%d.nix" % ctx.shard)
    ctx.guarded("real_clock", real_clock, ctx, nix, env.scratch_file("c19_real_%d.nix" % ctx.shard), tz)
    if spec["i"] == 0:
        ctx.guarded("sweep", round_trip_sweep, ctx, nix, env.scratch_file("c19_sweep.nix"), 300 if spec["ops"] <= 70 else 3000)
    for k in range(spec["files"]):
        rep = {"case": k, "shard": ctx.shard, "ops": spec["ops"]}
        c = Case(ctx, nix, path, ctx.rng("c19", k), rep, spec["ops"])
        sigs = ctx.guarded("case", c.run) or []
        for s in sigs:
            ctx.case(s, sample={"class": s[0], "entity_kind": s[1], "operation": s[2], "auto_update": s[3], "clock_step": s[4]})
        if not sigs:
            ctx.case(None)


def replay(w, ctx):
    from .. import env
    nix = env.import_nixio()
    ctx.shard = w.get("shard", 0)
    ctx.case(("replay",))
    if w.get("real_clock"):
        import os
        import time
        for tz in ZONES:
            os.environ["TZ"] = tz
            time.tzset()
            real_clock(ctx, nix, env.scratch_file("c19_real_replay.nix"), tz)
        return
    if w.get("sweep"):
        round_trip_sweep(ctx, nix, env.scratch_file("c19_sweep.nix"), 300)
        return
    Case(ctx, nix, env.scratch_file("c19_replay.nix"), ctx.rng("c19", w["case"]), w, w.get("ops", 70)).run(w.get("upto"))
