"""C04 - deleting an entity removes it, what it owns and every link to it - nothing else.

Oracle: expected = prune(pre-snapshot, closure of the victim): the closure's
records disappear, every list entry / role link pointing into the closure
disappears (role links become "absent": None or an error, never the deleted
entity), and every other record is unchanged, order included.  A raw HDF5 scan
at the end checks that no object with a deleted id survives anywhere in the file.
"""
ID = "C04"
LEVEL = "exploration"
TECHNIQUE = "runtime monitoring: whole-file snapshot before/after each delete compared with prune(pre, ownership closure); inbound links of every role wired to the victim beforehand; raw HDF5 scan for surviving ids"
RULE = ("Case = one generated link-rich file (60-110 random valid operations, names reused across parents and blocks) "
        "followed by 4-6 judged removals: delete of a block / array / frame / tag / multi-tag / group / (nested) source "
        "/ (nested) section / property / feature addressed by name, id, index or object - after wiring to the victim, "
        "from outside its parent, one inbound link of every role its kind can receive - or removal of one link-list "
        "entry / one metadata link; after a clean delete a successor is created under the victim's name through the very container object the deletion "
        "went through, which must yield the successor and never the deleted entity.  Distinct by (victim kind or unlink role, addressing mode, set of link roles "
        "pointing at the victim); trivial = none.")
ASSUMPTIONS = ["a role link (positions, extents, feature data, metadata, section link, dimension link) whose target was deleted may read as None or raise; it must not yield the deleted entity",
               "the record of a dimension whose link target was deleted is not compared beyond 'does not yield the target'",
               "ownership closure: block -> its arrays, frames, tags (+features), multi-tags, groups, whole source tree; source/section -> subtree (+properties); tag -> features"]

NSHARDS = 16


def plan(tier, seed):
    n = 7 if tier == "quick" else 90
    return [{"i": i, "files": n} for i in range(NSHARDS)]


DANG = "__DANGLING__"


def is_ref_into(v, ids):
    return isinstance(v, list) and len(v) == 2 and v[0] == "ref" and isinstance(v[1], str) and v[1].split(":", 1)[-1] in ids


def prune_val(v, ids):
    if is_ref_into(v, ids):
        return DANG
    if isinstance(v, list):
        if len(v) == 2 and v[0] == "container" and isinstance(v[1], list):
            return ["container", [x for x in (prune_val(e, ids) for e in v[1]) if x != DANG]]
        return [prune_val(e, ids) for e in v]
    if isinstance(v, dict):
        return {k: prune_val(x, ids) for k, x in v.items()}
    return v


def compare(exp, got, path, out, ids):
    if exp == DANG:
        if not (got is None or (isinstance(got, list) and got and got[0] == "raises")):
            out.append((path, "dangling_link_yields", got))
        return
    if isinstance(exp, dict) and isinstance(got, dict):
        # a dimension whose link target died: only require that it does not yield the target
        et, gt = exp.get("__link_target__"), got.get("__link_target__")
        if isinstance(et, str) and et in ids:
            if isinstance(gt, str) and gt in ids:
                out.append((path, "dimension_link_yields_deleted", got.get("__link_target__")))
            return
        for k in sorted(set(exp) | set(got)):
            if k == "__dictview__":      # derived view of props/sections (C10's subject); both are compared themselves
                continue
            if k not in got or k not in exp:
                out.append((path + "." + str(k), "field_appeared_or_vanished", [exp.get(k, "<absent>"), got.get(k, "<absent>")]))
                continue
            compare(exp[k], got[k], path + "." + str(k), out, ids)
        return
    if isinstance(exp, list) and isinstance(got, list) and len(exp) == len(got):
        for i, (a, b) in enumerate(zip(exp, got)):
            compare(a, b, path + "[%d]" % i, out, ids)
        return
    if exp != got:
        out.append((path, "differs", [exp, got]))


def field_of(path):
    # "DataArray:<id>.sources[1][0]" -> "sources"
    tail = path.split(".", 1)[1] if "." in path else ""
    return tail.split("[")[0].split(".")[0]


class Case:
    def __init__(self, ctx, nix, path, rng, rep):
        self.ctx, self.nix, self.path, self.rng, self.rep = ctx, nix, path, rng, rep
        self.sigs = []

    def candidates(self, B):
        f = B.f
        nix = self.nix
        c = []
        for b in f.blocks:
            c.append(("Block", f.blocks, b, b))
            for cn in ("data_arrays", "data_frames", "tags", "multi_tags", "groups"):
                for x in getattr(b, cn):
                    c.append((type(x).__name__, getattr(b, cn), x, b))
            for s, cont in B.walk_sources(b):
                c.append(("Source" if cont is b.sources else "NestedSource", cont, s, b))
            for t in list(b.tags) + list(b.multi_tags):
                for ft in t.features:
                    c.append(("Feature", t.features, ft, b))
        for s, cont in B.walk_sections():
            c.append(("Section" if cont is f.sections else "NestedSection", cont, s, None))
            for p in s.props:
                c.append(("Property", s.props, p, None))
        return c

    def wire(self, B, kind, victim, blk):
        """Give the victim inbound links of every role its kind can receive; returns set of roles wired."""
        nix, rng, f = self.nix, self.rng, B.f
        roles = set()

        def attempt(role, fn):
            try:
                fn()
                roles.add(role)
            except Exception:
                self.ctx.count("wire_failed:" + role)
        if kind in ("DataArray", "DataFrame", "Tag", "MultiTag") and blk is not None:
            cname = {"DataArray": "data_arrays", "DataFrame": "data_frames", "Tag": "tags", "MultiTag": "multi_tags"}[kind]
            if not len(blk.groups):
                attempt("setup", lambda: blk.create_group(B.uniq(blk.groups), "grp"))
            for g in list(blk.groups)[:2]:
                if victim not in getattr(g, cname):
                    attempt("group." + cname, lambda g=g: getattr(g, cname).append(victim))
                else:
                    roles.add("group." + cname)
        if kind == "DataArray":
            if not len(blk.tags):
                attempt("setup", lambda: blk.create_tag(B.uniq(blk.tags), "tag", [0.0]))
            for t in list(blk.tags)[:2] + list(blk.multi_tags)[:2]:
                if victim not in t.references:
                    attempt("references", lambda t=t: t.references.append(victim))
                else:
                    roles.add("references")
            t = B.pick(list(blk.tags) + list(blk.multi_tags))
            if t is not None:
                attempt("feature.data", lambda: t.create_feature(victim, rng.choice(list(nix.LinkType))))
            if victim.dtype.kind in "fiu":
                mts = [m for m in blk.multi_tags]
                if len(mts) >= 1:
                    attempt("extents", lambda: setattr(mts[0], "extents", victim))
                if len(mts) >= 2:
                    attempt("positions", lambda: setattr(mts[1], "positions", victim))
            others = [d for d in blk.data_arrays if d.id != victim.id]
            if others and len(victim.shape) >= 1 and all(s > 0 for s in victim.shape):
                o = rng.choice(others)

                def link():
                    rd = o.append_range_dimension()
                    idx = [0] * len(victim.shape)
                    idx[rng.randrange(len(idx))] = -1
                    rd.link_data_array(victim, idx)
                attempt("dimension_link", link)
            # the role links that are not confined to the victim's block: extents / positions of a multi-tag and a dimension link
            # in ANOTHER block accept it too, and must go with it
            for ob in [x for x in f.blocks if x.id != blk.id][:1]:
                if victim.dtype.kind in "fiu":
                    omts = list(ob.multi_tags)
                    if omts:
                        attempt("extents:other_block", lambda: setattr(omts[0], "extents", victim))
                    if len(omts) >= 2:
                        attempt("positions:other_block", lambda: setattr(omts[1], "positions", victim))
                oarrs = list(ob.data_arrays)
                if oarrs and len(victim.shape) >= 1 and all(s > 0 for s in victim.shape):
                    oo = rng.choice(oarrs)

                    def olink():
                        rd = oo.append_range_dimension()
                        idx = [0] * len(victim.shape)
                        idx[rng.randrange(len(idx))] = -1
                        rd.link_data_array(victim, idx)
                    attempt("dimension_link:other_block", olink)
        if kind == "DataFrame":
            for ob in [x for x in f.blocks if x.id != blk.id][:1]:
                oarrs = list(ob.data_arrays)
                if oarrs:
                    attempt("dimension_link:other_block", lambda: rng.choice(oarrs).append_set_dimension().link_data_frame(victim, 0))
            t = B.pick(list(blk.tags) + list(blk.multi_tags))
            if t is not None:
                attempt("feature.data", lambda: t.create_feature(victim, rng.choice([nix.LinkType.Indexed, nix.LinkType.Untagged])))
            others = list(blk.data_arrays)
            if others:
                o = rng.choice(others)
                attempt("dimension_link", lambda: o.append_set_dimension().link_data_frame(victim, 0))
        twins = []
        if kind in ("Source", "NestedSource", "Section", "NestedSection") and rng.random() < 0.6:
            # the subtree re-uses ONE name under different parents (and the victim's own name further down): every one of them is
            # a different entity, each with its own inbound link - all of them go, and all their links
            try:
                mk = (lambda p, n: p.create_source(n, "twin")) if "Source" in kind else (lambda p, n: p.create_section(n, "twin"))
                cname = "sources" if "Source" in kind else "sections"
                nm = B.uniq(getattr(victim, cname), "dup")
                a = mk(victim, nm)
                B.born(a, victim.id, cname)
                b2 = mk(a, nm)
                B.born(b2, a.id, cname)
                c2 = mk(b2, victim.name) if victim.name not in [x.name for x in getattr(b2, cname)] else None
                if c2 is not None:
                    B.born(c2, b2.id, cname)
                twins = [a, b2] + ([c2] if c2 is not None else [])
                roles.add("same_name_in_subtree")
            except Exception:
                self.ctx.count("wire_failed:twins")
        if kind in ("Source", "NestedSource"):
            # also give the deepest descendant a link: subtree links must go as well
            targets = [victim] + [s for s, _ in B.walk_sources(blk) if s.id in B.closure(victim) and s.id != victim.id][-1:] + twins
            for tgt in targets:
                holders = list(blk.data_arrays)[:2] + list(blk.tags)[:1] + list(blk.multi_tags)[:1] + list(blk.groups)[:1]
                for h in holders:
                    if tgt not in h.sources:
                        attempt("sources:" + type(h).__name__, lambda h=h, tgt=tgt: h.sources.append(tgt))
        if kind in ("Section", "NestedSection"):
            sub = [s for s, _ in B.walk_sections() if s.id in B.closure(victim)]
            targets = [victim] + sub[-1:] + twins
            holders = []
            for b in f.blocks:
                holders.append(b)
                holders += list(b.data_arrays)[:1] + list(b.tags)[:1] + list(b.multi_tags)[:1] + list(b.groups)[:1] + [s for s, _ in B.walk_sources(b)][:1] + list(b.data_frames)[:1]
            rng.shuffle(holders)
            for i, h in enumerate(holders[:6 + len(twins)]):
                tgt = targets[i % len(targets)]
                attempt("metadata:" + type(h).__name__, lambda h=h, tgt=tgt: setattr(h, "metadata", tgt))
            outside = [s for s, _ in B.walk_sections() if s.id not in B.closure(victim)]
            if outside:
                attempt("section.link", lambda: setattr(rng.choice(outside), "link", rng.choice(targets)))
        return roles

    def judged_delete(self, B, di):
        nix, rng, ctx, f = self.nix, self.rng, self.ctx, B.f
        from .. import snapshot
        cands = self.candidates(B)
        if not cands:
            return
        kinds = sorted({c[0] for c in cands})
        kind = rng.choice(kinds)
        kind, cont, victim, blk = rng.choice([c for c in cands if c[0] == kind])
        roles = self.wire(B, kind, victim, blk) if kind != "Feature" and kind != "Property" and kind != "Block" else set()
        if kind == "Block":
            # what a block contains can be linked from OUTSIDE the block: positions / extents of a multi-tag and dimension links are
            # not confined to a block - everything the block contains must go, those links included
            for ob in [x for x in B.f.blocks if x.id != victim.id][:1]:
                arrs = [d for d in victim.data_arrays if d.dtype.kind in "fiu"]
                omts = list(ob.multi_tags)
                try:
                    if arrs and omts:
                        omts[0].extents = rng.choice(arrs)
                        roles.add("child.extents:other_block")
                    if arrs and len(omts) >= 2:
                        omts[1].positions = rng.choice(arrs)
                        roles.add("child.positions:other_block")
                    lk = [d for d in victim.data_arrays if len(d.shape) >= 1 and all(x > 0 for x in d.shape) and d.dtype.kind in "fiu"]
                    if lk and len(ob.data_arrays):
                        tgt = rng.choice(lk)
                        idx = [0] * len(tgt.shape)
                        idx[rng.randrange(len(idx))] = -1
                        rng.choice(list(ob.data_arrays)).append_range_dimension().link_data_array(tgt, idx)
                        roles.add("child.dimension_link:other_block")
                    if len(victim.data_frames) and len(ob.data_arrays):
                        rng.choice(list(ob.data_arrays)).append_set_dimension().link_data_frame(victim.data_frames[0], 0)
                        roles.add("child.frame_dimension_link:other_block")
                except Exception:
                    ctx.count("wire_failed:block_children")
        # re-fetch handles after wiring
        pre = snapshot.snapshot(nix, f)
        ids = B.closure(victim)
        if kind == "Property":
            ids = {victim.id}
        how = rng.choice(["name", "id", "index", "obj"]) if kind not in ("Feature",) else rng.choice(["id", "index", "data_id"])
        owner = None
        if kind == "Property" and rng.random() < 0.4:
            # dictionary-style deletion through the section; half of the time the section also has a SUBSECTION of that name,
            # which must not be what goes
            how = "dict_key"
            owner = cont._parent
            if rng.random() < 0.6 and victim.name not in [x.name for x in owner.sections]:
                try:
                    twin = owner.create_section(victim.name, "same name as a property")
                    B.born(twin, owner.id, "sections")
                    roles.add("subsection_of_the_same_name")
                except Exception:
                    ctx.count("wire_failed:twin_subsection")
            pre = snapshot.snapshot(nix, f)
        lst = list(cont)
        pos = [x.id for x in lst].index(victim.id)
        data_id = None
        if how == "data_id":
            # a feature may be addressed by the id of its data object - that removes the FEATURE, never the data object
            try:
                data_id = victim.data.id
                if sum(1 for x in lst if x.data.id == data_id) != 1:
                    how = "id"
            except Exception:
                how = "id"
        key = {"name": getattr(victim, "name", None), "id": victim.id, "index": pos, "obj": victim, "data_id": data_id, "dict_key": None}[how]
        same_name_elsewhere = False
        if kind not in ("Feature",):
            nm = victim.name
            same_name_elsewhere = sum(1 for k, r in pre.table.items() if r.get("name") == nm) > 1
        info = dict(self.rep, deletion=di, victim_kind=kind, addressed_by=how, roles=sorted(roles), closure_size=len(ids),
                    same_name_elsewhere=same_name_elsewhere)
        self.sigs.append((kind, how, tuple(sorted(r.split(":")[0] for r in roles))))
        try:
            if how == "dict_key":
                del owner[victim.name]
            else:
                del cont[key]
        except Exception as e:
            ctx.violation("delete:%s:by_%s:raises_%s" % (kind, how, type(e).__name__), dict(info, error=repr(e)[:300]), dict(self.rep, upto=di))
            return
        B.sh.kill(ids)
        self.dead |= ids
        post = snapshot.snapshot(nix, f)
        ctx.count("deletions_judged")
        for p in post.problems:
            if p["kind"] == "reachable_only_through_link":
                eid = p["entity"].split(":", 1)[1]
                ctx.violation("delete:%s:%s_still_reachable_through_link:%s" % (kind, "deleted" if eid in self.dead else "entity", p["entity"].split(":")[0]),
                              dict(info, problem=p), dict(self.rep, upto=di))
            elif p["kind"] == "path_disagreement":
                ctx.violation("delete:%s:path_disagreement_after_delete" % kind, dict(info, problem=p), dict(self.rep, upto=di))
        left = [k for k in post.table if k != "File:" and k.split(":", 1)[1] in ids]
        if left:
            ctx.violation("delete:%s:deleted_still_present:%s" % (kind, left[0].split(":")[0]), dict(info, present=left[:4]), dict(self.rep, upto=di))
        exp = {k: prune_val(v, ids) for k, v in pre.table.items() if k == "File:" or k.split(":", 1)[1] not in ids}
        got = {k: v for k, v in post.table.items() if k == "File:" or k.split(":", 1)[1] not in ids}
        out = []
        for k in sorted(set(exp) | set(got)):
            if k not in got:
                out.append((k, "collateral_entity_vanished", None))
            elif k not in exp:
                out.append((k, "entity_appeared", None))
            else:
                compare(exp[k], got[k], k, out, ids)
        for path, what, val in out[:6]:
            ek = path.split(":")[0]
            ctx.violation("delete:%s:%s:%s.%s" % (kind, what, ek, field_of(path)), dict(info, where=path, detail=val), dict(self.rep, upto=di))
        if not out and not left and kind != "Feature" and rng.random() < 0.6:
            self.successor(B, kind, cont, victim_name=nm, victim_id=victim.id, ids=ids, info=info, di=di)

    def successor(self, B, kind, cont, victim_name, victim_id, ids, info, di):
        """A new entity created under the deleted one's name, through the very container object the deletion went through:
        the list must yield the new entity (under the name, at the end, by id) and never the deleted one."""
        nix, ctx = self.nix, self.ctx
        parent = cont._parent
        try:
            if kind == "Block":
                new = B.f.create_block(victim_name, "successor")
            elif kind == "DataArray":
                new = parent.create_data_array(victim_name, "successor", data=[1.0, 2.0])
            elif kind == "DataFrame":
                from collections import OrderedDict
                new = parent.create_data_frame(victim_name, "successor", col_dict=OrderedDict([("n", nix.DataType.Int64)]), data=[(1,)])
            elif kind == "Tag":
                new = parent.create_tag(victim_name, "successor", [0.0])
            elif kind == "MultiTag":
                arrs = [d for d in parent.data_arrays if d.dtype.kind == "f" and d.size]
                if not arrs:
                    return
                new = parent.create_multi_tag(victim_name, "successor", arrs[0])
            elif kind == "Group":
                new = parent.create_group(victim_name, "successor")
            elif kind in ("Source", "NestedSource"):
                new = parent.create_source(victim_name, "successor")
            elif kind in ("Section", "NestedSection"):
                new = (B.f if kind == "Section" else parent).create_section(victim_name, "successor")
            elif kind == "Property":
                new = parent.create_property(victim_name, [1, 2])
            else:
                return
        except Exception as e:
            ctx.violation("delete:%s:name_of_deleted_not_available:%s" % (kind, type(e).__name__), dict(info, error=repr(e)[:300]), dict(self.rep, upto=di))
            return
        ctx.count("successors_created")
        B.born(new, "File" if kind in ("Block", "Section") else parent.id, cont._name)
        B.expect(new, "type", "successor") if kind != "Property" else None
        try:
            seen = [x.id for x in cont]
            facts = {"by_name": cont[victim_name].id, "last": cont[-1].id, "by_id": cont[new.id].id, "contains_new": new.id in cont,
                     "contains_deleted": victim_id in cont, "iterated_deleted": sorted(set(seen) & ids)}
        except Exception as e:
            ctx.violation("delete:%s:successor_lookup_raises_%s" % (kind, type(e).__name__), dict(info, error=repr(e)[:300]), dict(self.rep, upto=di))
            return
        wrong = [k for k in ("by_name", "last", "by_id") if facts[k] != new.id]
        if wrong or not facts["contains_new"] or facts["contains_deleted"] or facts["iterated_deleted"]:
            ctx.violation("delete:%s:list_yields_deleted_after_successor:%s" % (kind, "+".join(wrong) or "membership"),
                          dict(info, new_id=new.id, deleted_id=victim_id, facts=facts), dict(self.rep, upto=di))

    def judged_refused_delete(self, B, di):
        """Deleting from a container by the id of something that is not a member (an entity of the same kind in another block,
        an entity of another kind) deletes nothing, anywhere."""
        nix, rng, ctx, f = self.nix, self.rng, self.ctx, B.f
        from .. import snapshot
        blocks = list(f.blocks)
        if not blocks:
            return
        b = rng.choice(blocks)
        cname = rng.choice(["data_arrays", "tags", "multi_tags", "groups", "sources", "data_frames"])
        cont = getattr(b, cname)
        members = {x.id for x in cont}
        pool = []
        for b2 in blocks:
            for cn in ("data_arrays", "tags", "multi_tags", "groups", "sources", "data_frames"):
                for x in getattr(b2, cn):
                    if x.id not in members:
                        pool.append(("same_kind_other_block" if cn == cname else "other_kind", x.id))
        pool += [("section", s.id) for s in B.all_sections()[:4]]
        if not pool:
            return
        what, fid = rng.choice(pool)
        pre = snapshot.snapshot(nix, f)
        info = dict(self.rep, deletion=di, container="Block." + cname, foreign_id_of=what)
        self.sigs.append(("refused_delete", cname, what))
        try:
            del cont[fid]
            ctx.violation("delete_by_non_member_id_accepted:%s:%s" % (cname, what), info, dict(self.rep, upto=di))
        except Exception:
            ctx.count("non_member_deletes_refused")
        post = snapshot.snapshot(nix, f)
        d = snapshot.diff(pre, post, limit=3)
        if d:
            x = d[0]
            ctx.violation("delete_by_non_member_id_changed_file:%s:%s:%s.%s" % (cname, what, x["entity"].split(":")[0], x.get("field") or x.get("change")),
                          dict(info, diff=x), dict(self.rep, upto=di))
            # keep the shadow usable: whatever vanished is gone
            gone = {k.split(":", 1)[1] for k in pre.table if k not in post.table and k != "File:"}
            B.sh.kill(gone)
            self.dead |= gone

    def judged_unlink(self, B, di):
        """Removing a link-list entry or clearing a metadata link never deletes the target; nothing else changes."""
        nix, rng, ctx, f = self.nix, self.rng, self.ctx, B.f
        from .. import snapshot
        opts = []
        for b in f.blocks:
            holders = list(b.groups) + list(b.tags) + list(b.multi_tags) + list(b.data_arrays)
            for h in holders:
                for cn in ("data_arrays", "data_frames", "tags", "multi_tags", "references", "sources"):
                    lc = getattr(h, cn, None)
                    if lc is not None and hasattr(lc, "append") and len(lc):
                        opts.append(("list:" + cn, h, lc))
            for h in [b] + holders + [s for s, _ in B.walk_sources(b)] + list(b.data_frames):
                if h.metadata is not None:
                    opts.append(("metadata", h, None))
        if not opts:
            return
        role, holder, lc = rng.choice(opts)
        pre = snapshot.snapshot(nix, f)
        hkey = "%s:%s" % (type(holder).__name__, holder.id)
        info = dict(self.rep, deletion=di, unlink=role, holder=hkey)
        self.sigs.append(("unlink", role, type(holder).__name__))
        exp = {k: dict(v) for k, v in pre.table.items()}
        try:
            if role == "metadata":
                tgt = holder.metadata.id
                del holder.metadata
                exp[hkey]["metadata"] = None
            else:
                x = rng.choice(list(lc))
                tgt = x.id
                how = rng.choice(["id", "obj", "name", "index"])
                del lc[{"id": x.id, "obj": x, "name": x.name, "index": [y.id for y in lc].index(x.id)}[how]]
                cn = role.split(":")[1]
                B.sh.order.get((holder.id, cn), []) and tgt in B.sh.order[(holder.id, cn)] and B.sh.order[(holder.id, cn)].remove(tgt)
                c = exp[hkey][cn]
                exp[hkey][cn] = ["container", [e for e in c[1] if not is_ref_into(e, {tgt})]]
        except Exception as e:
            ctx.violation("unlink:%s:raises_%s" % (role, type(e).__name__), dict(info, error=repr(e)[:300]), dict(self.rep, upto=di))
            return
        if role == "metadata":
            B.sh.attrs[(holder.id, "metadata")] = None
        post = snapshot.snapshot(nix, f)
        ctx.count("unlinks_judged")
        out = []
        for k in sorted(set(exp) | set(post.table)):
            if k not in post.table:
                out.append((k, "entity_vanished", None))
            elif k not in exp:
                out.append((k, "entity_appeared", None))
            else:
                compare(exp[k], post.table[k], k, out, set())
        for path, what, val in out[:6]:
            tk = path.split(":")[0]
            ctx.violation("unlink:%s:%s:%s.%s" % (role, what, tk, field_of(path)), dict(info, where=path, detail=val, target=tgt), dict(self.rep, upto=di))

    def run(self, upto=None):
        nix, rng, ctx = self.nix, self.rng, self.ctx
        from .. import clock, gen, snapshot
        clock.install()
        f = nix.File.open(self.path, nix.FileMode.Overwrite)
        B = gen.Builder(nix, f, rng, deletes=False)
        self.dead = set()
        try:
            for _ in range(rng.randint(60, 110)):
                name, exc = B.step()
                if exc is not None:
                    ctx.observe("valid_op_raised:%s:%s" % (name, type(exc).__name__), repr(exc)[:200])
            n = rng.randint(4, 6)
            for di in range(n):
                if upto is not None and di > upto:
                    break
                r = rng.random()
                if r < 0.15:
                    self.judged_refused_delete(B, di)
                elif r < 0.4:
                    self.judged_unlink(B, di)
                else:
                    self.judged_delete(B, di)
            last = snapshot.snapshot(nix, B.f)
            B.f.close()
            # raw scan: no object anywhere carries a deleted id
            import h5py
            with h5py.File(self.path, "r") as h:
                scan = snapshot.rawscan(h)
            for eid, addrs in snapshot.raw_entity_ids(scan).items():
                if eid in self.dead:
                    o = scan["objects"][addrs[0]]
                    ctx.violation("raw:deleted_id_survives_in_file", dict(self.rep, id=eid, paths=o["paths"][:3]), dict(self.rep, upto=upto))
            ctx.count("raw_scans")
            B.f = nix.File.open(self.path, rng.choice([nix.FileMode.ReadOnly, nix.FileMode.ReadWrite]))
            again = snapshot.snapshot(nix, B.f)
            for d in snapshot.diff(last, again)[:4]:
                ctx.violation("reopen_after_deletes:%s" % (d.get("field") or d.get("change")), dict(self.rep, diff=d), dict(self.rep, upto=upto))
            return True
        finally:
            try:
                B.f.close()
            except Exception:
                pass


def run_shard(spec, ctx):
    from .. import env
    nix = env.import_nixio()
    path = env.scratch_file("c04_%d.nix" % ctx.shard)
    for k in range(spec["files"]):
        rep = {"case": k, "shard": ctx.shard}
        c = Case(ctx, nix, path, ctx.rng("c04", k), rep)
        ctx.guarded("case", c.run)
        for s in c.sigs:
            ctx.case(s, sample={"victim_or_unlink": s[0], "addressed_by": s[1], "inbound_roles_or_holder": s[2]})
        if not c.sigs:
            ctx.case(None)


def replay(w, ctx):
    from .. import env
    nix = env.import_nixio()
    ctx.shard = w.get("shard", 0)
    ctx.case(("replay",))
    Case(ctx, nix, env.scratch_file("c04_replay.nix"), ctx.rng("c04", w["case"]), w).run(w.get("upto"))
