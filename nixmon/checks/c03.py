"""C03 - names are unique per parent, ids are unique and stable, and all lookups agree.

Oracle: an ordered list (name, id) per container, maintained from the create /
append / delete calls made.  After every step ten access paths of the real
container are compared with it; at the end of a case a raw HDF5 scan checks id
uniqueness over the whole file, and the container is re-checked after reopening.
"""
import uuid

ID = "C03"
LEVEL = "exploration"
TECHNIQUE = "runtime reference-model monitor: creation-ordered list model per container vs len/iter/index/negative index/name/id/membership/items of the real container after every create/duplicate/delete step; raw HDF5 id scan"
RULE = ("Case = one container (17 kinds: file.blocks, file.sections, block.{data_arrays,data_frames,tags,multi_tags,"
        "groups,sources}, nested sources and sections at depth 2-3, section.props, tag.features, and the link lists "
        "group.{data_arrays,tags,multi_tags,data_frames,sources}, tag.references, array.sources) driven through 8-26 "
        "create/duplicate/delete steps with names from a hostile pool (names that sort differently from creation "
        "order, UUID look-alikes, non-ASCII, blanks, '..', 300-1000 characters); deletes addressed by name, id, index, "
        "negative index and object; sizes cross HDF5's compact/dense link storage switch (8 links).  After every step "
        "all access paths are compared with the model (positions also as NumPy integers; the ids and names of deleted members must find nothing, also "
        "once the name has been given to a new member).  Distinct by (container kind, multiset of name classes, delete "
        "addressing modes used, size bucket); trivial = none.")
ASSUMPTIONS = ["legal names: non-empty, no '/', not '.', no NUL",
               "re-appending a member to a link list either leaves the list as it is or moves the entry to the end (A19)",
               "features have no names; only len/iteration/index/id look-ups are judged for tag.features"]

LAYER_B = ['C03']      # monitors of nixmon/passive/plugin.py run over the repository's own tests in the thorough tier
NSHARDS = 16
NAMEPOOL = ["zz", "aa", "mm", "a.b", "..", "ü∂", " lead", "trail ", "x" * 300, "y" * 1000,
            "0123456789abcdef0123456789abcdef", "12345678-1234-5678-1234-567812345678", "A", "a",
            "{12345678-1234-5678-1234-567812345679}", "urn:uuid:12345678-1234-5678-1234-56781234567a",
            "e\u0301cole", "\u212bngstr\u00f6m", "\u2126", "\u1112\u1161\u11ab", "\ufb01n",   # legal names that are not NFC/NFKC-normalised
            "n1", "n2", "n3", "n4", "n5", "n6", "n7", "n8", "n9", "n10", "n11", "0", "-1", "name with spaces", "tab\there"]

KINDS = ["file.blocks", "file.sections", "block.data_arrays", "block.data_frames", "block.tags", "block.multi_tags",
         "block.groups", "block.sources", "source.sources", "source.sources.deep", "section.sections", "section.sections.deep",
         "section.props", "tag.features",
         "link:group.data_arrays", "link:group.tags", "link:group.multi_tags", "link:group.data_frames", "link:group.sources",
         "link:tag.references", "link:mtag.references", "link:array.sources", "link:tag.sources"]


def plan(tier, seed):
    n = 10 if tier == "quick" else 80
    return [{"i": i, "rounds": n} for i in range(NSHARDS)]


def nameclass(n):
    try:
        uuid.UUID(n)
        return "uuidlike"
    except ValueError:
        pass
    if len(n) > 100:
        return "long"
    if any(ord(c) > 127 for c in n):
        import unicodedata
        return "nonascii" if unicodedata.normalize("NFC", n) == n and unicodedata.normalize("NFKC", n) == n else "nonascii_unnormalised"
    if n != n.strip() or "\t" in n or " " in n:
        return "blanks"
    if n in ("..", "a.b", "0", "-1"):
        return "special"
    return "plain"


class Case:
    def __init__(self, ctx, nix, np, path, rng, label, rep):
        self.ctx, self.nix, self.np, self.path, self.rng, self.label, self.rep = ctx, nix, np, path, rng, label, rep
        self.modes = set()
        self.classes = []

    def bad(self, what, ncls="-", **kw):
        self.ctx.violation("%s:%s:%s" % (self.label, what, ncls), dict(self.rep, container=self.label, **kw), self.rep)

    def setup(self, f):
        """Returns (container getter, create(name) or None, pool of appendable entities or None)."""
        nix, np = self.nix, self.np
        from collections import OrderedDict
        b = f.create_block("blk", "t")
        other = f.create_block("other", "t")
        sec = f.create_section("sec", "t")
        src0 = b.create_source("src0", "t")
        src1 = src0.create_source("nested", "t")
        src2 = src1.create_source("deeper", "t")
        ssec = sec.create_section("nested", "t")
        ssec2 = ssec.create_section("deeper", "t")
        L = self.label
        simple = {
            "file.blocks": (lambda f: f.blocks, lambda f, n: f.create_block(n, "t")),
            "file.sections": (lambda f: f.sections, lambda f, n: f.create_section(n, "t")),
            "block.data_arrays": (lambda f: f.blocks["blk"].data_arrays, lambda f, n: f.blocks["blk"].create_data_array(n, "t", data=[1.])),
            "block.data_frames": (lambda f: f.blocks["blk"].data_frames, lambda f, n: f.blocks["blk"].create_data_frame(n, "t", col_dict=OrderedDict([("a", int)]))),
            "block.tags": (lambda f: f.blocks["blk"].tags, lambda f, n: f.blocks["blk"].create_tag(n, "t", [0.])),
            "block.multi_tags": (lambda f: f.blocks["blk"].multi_tags, lambda f, n: f.blocks["blk"].create_multi_tag(n, "t", f.blocks["blk"].data_arrays["posarr"])),
            "block.groups": (lambda f: f.blocks["blk"].groups, lambda f, n: f.blocks["blk"].create_group(n, "t")),
            "block.sources": (lambda f: f.blocks["blk"].sources, lambda f, n: f.blocks["blk"].create_source(n, "t")),
            "source.sources": (lambda f: f.blocks["blk"].sources["src0"].sources, lambda f, n: f.blocks["blk"].sources["src0"].create_source(n, "t")),
            "source.sources.deep": (lambda f: f.blocks["blk"].sources["src0"].sources["nested"].sources["deeper"].sources,
                                    lambda f, n: f.blocks["blk"].sources["src0"].sources["nested"].sources["deeper"].create_source(n, "t")),
            "section.sections": (lambda f: f.sections["sec"].sections, lambda f, n: f.sections["sec"].create_section(n, "t")),
            "section.sections.deep": (lambda f: f.sections["sec"].sections["nested"].sections["deeper"].sections,
                                      lambda f, n: f.sections["sec"].sections["nested"].sections["deeper"].create_section(n, "t")),
            "section.props": (lambda f: f.sections["sec"].sections["nested"].props, lambda f, n: f.sections["sec"].sections["nested"].create_property(n, [1])),
        }
        if L == "block.multi_tags":
            b.create_data_array("posarr", "t", data=[1., 2.])
            other.create_data_array("posarr", "t", data=[1., 2.])
        # an entity of the same kind and NAME under another parent: it is not a member
        ob = lambda f: f.blocks["other"]      # noqa
        self.twin = {
            "block.data_arrays": lambda f, n: ob(f).create_data_array(n, "t", data=[1.]),
            "block.data_frames": lambda f, n: ob(f).create_data_frame(n, "t", col_dict=OrderedDict([("a", int)])),
            "block.tags": lambda f, n: ob(f).create_tag(n, "t", [0.]),
            "block.multi_tags": lambda f, n: ob(f).create_multi_tag(n, "t", ob(f).data_arrays["posarr"]),
            "block.groups": lambda f, n: ob(f).create_group(n, "t"),
            "block.sources": lambda f, n: ob(f).create_source(n, "t"),
            "source.sources": lambda f, n: f.blocks["blk"].sources["src0"].sources["nested"].create_source(n, "t"),
            "source.sources.deep": lambda f, n: ob(f).create_source(n, "t"),
            "section.sections": lambda f, n: f.sections["sec"].sections["nested"].create_section(n, "t"),
            "section.sections.deep": lambda f, n: f.create_section(n, "t"),
            "section.props": lambda f, n: f.sections["sec"].create_property(n, [1]),
        }.get(L)
        if L in simple:
            return simple[L][0], simple[L][1], None
        # link lists and features: pre-create the targets with hostile names
        names = self.rng.sample(NAMEPOOL, 13)
        g = b.create_group("grp", "t")
        tg = b.create_tag("tg", "t", [0.])
        if L in ("tag.features", "link:group.data_arrays", "link:tag.references", "link:mtag.references"):
            pool = [b.create_data_array(n, "t", data=[1., 2.]) for n in names]
            if L == "link:mtag.references":
                b.create_multi_tag("mtg", "t", pool[0])
        elif L == "link:group.tags":
            pool = [b.create_tag(n, "t", [0.]) for n in names]
        elif L == "link:group.multi_tags":
            pa = b.create_data_array("posarr", "t", data=[1., 2.])
            pool = [b.create_multi_tag(n, "t", pa) for n in names]
        elif L == "link:group.data_frames":
            pool = [b.create_data_frame(n, "t", col_dict=OrderedDict([("a", int)])) for n in names]
        else:   # sources
            pool = []
            for i, n in enumerate(names):
                par = [b, src0, src1, src2][i % 4]
                pool.append(par.create_source(n, "t"))
            if L == "link:array.sources":
                b.create_data_array("holder", "t", data=[1.])
        getters = {
            "tag.features": lambda f: f.blocks["blk"].tags["tg"].features,
            "link:group.data_arrays": lambda f: f.blocks["blk"].groups["grp"].data_arrays,
            "link:group.tags": lambda f: f.blocks["blk"].groups["grp"].tags,
            "link:group.multi_tags": lambda f: f.blocks["blk"].groups["grp"].multi_tags,
            "link:group.data_frames": lambda f: f.blocks["blk"].groups["grp"].data_frames,
            "link:group.sources": lambda f: f.blocks["blk"].groups["grp"].sources,
            "link:tag.references": lambda f: f.blocks["blk"].tags["tg"].references,
            "link:mtag.references": lambda f: f.blocks["blk"].multi_tags["mtg"].references,
            "link:array.sources": lambda f: f.blocks["blk"].data_arrays["holder"].sources,
            "link:tag.sources": lambda f: f.blocks["blk"].tags["tg"].sources,
        }
        return getters[L], None, [(x.name, x.id) for x in pool]

    def find_target(self, f, name, id_):
        """Fetch an appendable target entity of the right kind by id (own walk)."""
        b = f.blocks["blk"]
        L = self.label
        if "sources" in L:
            queue = list(b.sources)
            while queue:
                s = queue.pop(0)
                if s.id == id_:
                    return s
                queue.extend(s.sources)
            raise KeyError(id_)
        cname = {"tag.features": "data_arrays", "link:group.data_arrays": "data_arrays", "link:tag.references": "data_arrays",
                 "link:mtag.references": "data_arrays", "link:group.tags": "tags", "link:group.multi_tags": "multi_tags",
                 "link:group.data_frames": "data_frames"}[L]
        for x in getattr(b, cname):
            if x.id == id_:
                return x
        raise KeyError(id_)

    def check(self, cont, model, tag):
        """model: list of (name, id)."""
        self.ctx.count("agreement_checks")
        feats = self.label == "tag.features"
        try:
            if len(cont) != len(model):
                self.bad("len", got=len(cont), expected=len(model), at=tag)
            it = [(None if feats else x.name, x.id) for x in cont]
            if it != [(None if feats else n, i) for n, i in model]:
                self.bad("iteration_order", got=[str(n)[:12] for n, _ in it][:8], expected=[str(n)[:12] for n, _ in model][:8], at=tag)
            for i, (n, id_) in enumerate(model):
                nc = "-" if feats else nameclass(n)
                if cont[i].id != id_:
                    self.bad("positive_index", nc, index=i, at=tag)
                if cont[i - len(model)].id != id_:
                    self.bad("negative_index", nc, index=i - len(model), at=tag)
                if i < 3:
                    # a position given as one of NumPy's integers is the same position
                    import numpy as np
                    for ty in (np.int64, np.intp, np.uint8):
                        try:
                            if cont[ty(i)].id != id_:
                                self.bad("numpy_integer_index_wrong", nc, index=i, type=ty.__name__, at=tag)
                        except Exception as e:
                            self.bad("numpy_integer_index_raises_%s" % type(e).__name__, nc, index=i, type=ty.__name__, at=tag)
                try:
                    if cont[id_].id != id_:
                        self.bad("by_id_wrong", nc, at=tag)
                except KeyError:
                    self.bad("by_id_keyerror", nc, at=tag)
                if id_ not in cont:
                    self.bad("id_not_in", nc, at=tag)
                if cont[i] not in cont:
                    self.bad("entity_not_in", nc, at=tag)
                if feats:
                    continue
                try:
                    if cont[n].id != id_:
                        self.bad("by_name_wrong", nc, name=n[:40], at=tag)
                except KeyError:
                    self.bad("by_name_keyerror", nc, name=n[:40], at=tag)
                if n not in cont:
                    self.bad("name_not_in", nc, name=n[:40], at=tag)
            ids = [k for k, _ in cont.items()]
            if ids != [i for _, i in model]:
                self.bad("items", at=tag)
            for absent in ("absent-name", str(uuid.uuid4()), "0123456789abcdef0123456789abcdee"):
                if absent in cont:
                    self.bad("absent_tests_present", absent=absent[:12], at=tag)
                try:
                    cont[absent]
                    self.bad("absent_getitem_returns", absent=absent[:12], at=tag)
                except KeyError:
                    pass
            # what was deleted (or unlinked) stays gone: its id finds nothing, also when its name has been given to a new entity
            live_ids, live_names = {i for _, i in model}, {n for n, _ in model}
            for gn, gid in getattr(self, "gone", [])[-6:]:
                if gid in live_ids:
                    continue                # a link-list member that was appended again
                self.ctx.count("deleted_ids_probed")
                nc = "-" if gn is None else nameclass(gn)
                reused = "name_reused" if gn in live_names else "name_free"
                if gid in cont:
                    self.bad("deleted_id_tests_present:" + reused, nc, at=tag)
                try:
                    got = cont[gid]
                    self.bad("deleted_id_lookup_returns:" + reused, nc, at=tag, returned_id=got.id, returned_name=None if feats else got.name[:40])
                except KeyError:
                    pass
                if gn is not None and gn not in live_names:
                    if gn in cont:
                        self.bad("deleted_name_tests_present", nc, at=tag, name=gn[:40])
                    try:
                        cont[gn]
                        self.bad("deleted_name_lookup_returns", nc, at=tag, name=gn[:40])
                    except KeyError:
                        pass
            for i in (len(model), -len(model) - 1, len(model) + 7):
                try:
                    cont[i]
                    self.bad("out_of_range_index_accepted", index=i, size=len(model), at=tag)
                except IndexError:
                    pass
        except Exception as e:
            self.bad("lookup_raises_%s" % type(e).__name__, error=repr(e)[:200], at=tag)

    def run(self):
        nix, rng, ctx = self.nix, self.rng, self.ctx
        from nixio.exceptions import DuplicateName
        f = nix.File.open(self.path, nix.FileMode.Overwrite)
        try:
            getter, create, pool = self.setup(f)
            cont = getter(f)
            model = [(x.name, x.id) for x in cont] if self.label != "tag.features" else []
            fixed = len(model)          # pre-existing children (e.g. 'blk', 'other') are part of the sequence
            allids = set()
            nsteps = rng.randint(8, 26)
            grow_first = rng.random() < 0.5
            for si in range(nsteps):
                if grow_first and len(model) < 10 and si < 12:
                    op = "create"
                else:
                    op = rng.choice(["create", "create", "create", "delete", "delete", "dup"])
                if op == "create":
                    if create is not None:
                        n = rng.choice(NAMEPOOL)
                        if n in [m for m, _ in model]:
                            op = "dup"
                        else:
                            nc = nameclass(n)
                            self.classes.append(nc)
                            try:
                                e = create(f, n)
                                if e.name != n:
                                    self.bad("created_under_other_name", nc, wanted=n[:40], got=e.name[:40])
                                try:
                                    if str(uuid.UUID(e.id)) != e.id:
                                        self.bad("id_not_canonical", nc, id=e.id)
                                except (ValueError, AttributeError, TypeError):
                                    self.bad("id_not_uuid", nc, id=repr(e.id))
                                if e.id in allids or e.id in [i for _, i in model]:
                                    self.bad("id_reused", nc)
                                allids.add(e.id)
                                model.append((n, e.id))
                            except Exception as ex:
                                self.bad("legal_name_refused_%s" % type(ex).__name__, nc, name=n[:40], error=repr(ex)[:200])
                    else:
                        cand = [p for p in pool if p[1] not in [i for _, i in model]]
                        if not cand:
                            op = "dup"
                        else:
                            n, id_ = rng.choice(cand)
                            nc = nameclass(n)
                            self.classes.append(nc)
                            try:
                                tgt = self.find_target(f, n, id_)
                                if self.label == "tag.features":
                                    ft = f.blocks["blk"].tags["tg"].create_feature(tgt, rng.choice(list(nix.LinkType)))
                                    try:
                                        if str(uuid.UUID(ft.id)) != ft.id:
                                            self.bad("id_not_canonical", id=ft.id)
                                    except ValueError:
                                        self.bad("id_not_uuid", id=repr(ft.id))
                                    model.append((None, ft.id))
                                else:
                                    cont.append(tgt)
                                    model.append((n, id_))
                            except Exception as ex:
                                self.bad("append_refused_%s" % type(ex).__name__, nc, name=n[:40], error=repr(ex)[:200])
                if op == "dup" and model and self.label != "tag.features":
                    n, id_ = rng.choice(model)
                    nc = nameclass(n)
                    if create is not None:
                        try:
                            create(f, n)
                            self.bad("duplicate_accepted", nc, name=n[:40])
                            break       # the model no longer describes the container
                        except DuplicateName:
                            ctx.count("duplicates_refused")
                        except Exception as ex:
                            self.bad("duplicate_wrong_exception_%s" % type(ex).__name__, nc, name=n[:40], error=repr(ex)[:200])
                    else:
                        # re-append of a member (A19): stays, or moves to the end; never duplicated
                        try:
                            cont.append(self.find_target(f, n, id_))
                            now = [(x.name, x.id) for x in cont]
                            moved = [m for m in model if m[1] != id_] + [(n, id_)]
                            if now == moved:
                                model = moved
                            elif now != model:
                                self.bad("reappend_changes_list", nc, got=[x[0][:10] for x in now], before=[x[0][:10] for x in model])
                        except Exception as ex:
                            ctx.count("reappend_refused")
                if op == "delete" and len(model) > fixed:
                    i = rng.randrange(fixed, len(model))
                    n, id_ = model[i]
                    choices = ["id", "index", "negindex", "obj"] + ([] if self.label == "tag.features" else ["name"])
                    if self.label == "tag.features":
                        choices.remove("obj")       # Feature objects are not accepted by __delitem__ (observation, not judged)
                    how = rng.choice(choices)
                    self.modes.add(how)
                    key = {"name": n, "id": id_, "index": i, "negindex": i - len(model)}.get(how)
                    if how == "obj":
                        key = cont[i]
                    nc = "-" if n is None else nameclass(n)
                    # witnesses: entities elsewhere in the file whose NAME is the id of the member about to be deleted (a legal,
                    # UUID-looking name).  "Delete exactly that entity" - they must all survive.
                    witnesses = []
                    if rng.random() < 0.4 and how != "obj":
                        try:
                            # (a member of a link list can be unlinked, appended again and unlinked again: its witnesses may exist already)
                            if self.label != "file.sections":
                                ws = f.sections[id_] if id_ in [x.name for x in f.sections] else f.create_section(id_, "witness")
                                witnesses.append(("file.sections", lambda: [x.name for x in f.sections]))
                                if id_ not in [x.name for x in ws.props]:
                                    ws.create_property(id_, [1])
                                witnesses.append(("section.props", lambda ws=ws: [x.name for x in f.sections[id_].props]))
                            else:
                                if id_ not in [x.name for x in f.blocks]:
                                    f.create_block(id_, "witness")
                                witnesses.append(("file.blocks", lambda: [x.name for x in f.blocks]))
                            wb = f.blocks["blk"] if "blk" in f.blocks else None
                            if wb is not None and self.label not in ("block.sources",):
                                wsrc = wb.create_source("wsrc_%d" % si, "witness").create_source(id_, "witness")
                                witnesses.append(("nested source", lambda wb=wb, si=si: [x.name for x in wb.sources["wsrc_%d" % si].sources]))
                            ctx.count("witnesses_named_after_deleted_id", len(witnesses))
                        except Exception as ex:
                            self.bad("legal_name_refused_%s" % type(ex).__name__, "id_of_another_entity", name=id_, error=repr(ex)[:200])
                            witnesses = []
                    try:
                        del cont[key]
                        model.pop(i)
                        if not hasattr(self, "gone"):
                            self.gone = []
                        self.gone.append((n, id_))
                        for where, names in witnesses:
                            if id_ not in names():
                                self.bad("delete_removed_entity_named_after_the_id:%s" % where, "id_of_another_entity", deleted_id=id_, how=how)
                    except Exception as ex:
                        self.bad("delete_by_%s_raises_%s" % (how, type(ex).__name__), nc, name=str(n)[:40], error=repr(ex)[:200])
                        break
                self.check(cont, model, "step%d:%s" % (si, op))
            # a same-named entity under another parent is not a member (and does not make the member disappear)
            if getattr(self, "twin", None) is not None and model:
                for n, id_ in rng.sample(model, min(3, len(model))):
                    try:
                        tw = self.twin(f, n)
                    except Exception:
                        ctx.count("twin_not_created")
                        continue
                    ctx.count("same_name_non_members_tested")
                    nc = nameclass(n)
                    try:
                        if tw in cont:
                            self.bad("same_named_entity_of_another_parent_tests_present", nc, name=n[:40])
                        if tw.id in cont:
                            self.bad("id_of_non_member_tests_present", nc, name=n[:40])
                        if cont[n].id != id_:
                            self.bad("by_name_wrong", nc, name=n[:40], at="after_twin")
                    except Exception as ex:
                        self.bad("membership_raises_%s" % type(ex).__name__, nc, name=n[:40], error=repr(ex)[:200])
                self.check(cont, model, "after_twins")
            # whole-file id uniqueness on the raw file, then reopen
            f.close()
            import h5py
            from .. import snapshot
            with h5py.File(self.path, "r") as h:
                scan = snapshot.rawscan(h)
            for eid, addrs in snapshot.raw_entity_ids(scan).items():
                if len(addrs) > 1:
                    paths = [scan["objects"][a]["paths"][0] for a in addrs]
                    self.bad("id_shared_by_distinct_objects", paths=paths)
                try:
                    if str(uuid.UUID(eid)) != eid:
                        self.bad("raw_id_not_canonical", id=eid)
                except ValueError:
                    self.bad("raw_id_not_uuid", id=repr(eid))
            ctx.count("raw_scans")
            f = nix.File.open(self.path, rng.choice([nix.FileMode.ReadOnly, nix.FileMode.ReadWrite]))
            self.check(getter(f), model, "reopen")
            return len(model)
        finally:
            try:
                f.close()
            except Exception:
                pass


def run_shard(spec, ctx):
    from .. import env
    nix = env.import_nixio()
    import numpy as np
    path = env.scratch_file("c03_%d.nix" % ctx.shard)
    jobs = [(r, k) for r in range(spec["rounds"]) for k in KINDS]
    for j, (r, label) in enumerate(jobs):
        if j % NSHARDS != spec["i"]:
            continue
        rng = ctx.rng("c03", j)
        rep = {"case": j, "shard": ctx.shard, "container": label}
        c = Case(ctx, nix, np, path, rng, label, rep)
        size = ctx.guarded("case", c.run)
        ctx.case((label, tuple(sorted(set(c.classes))), tuple(sorted(c.modes)), None if size is None else min(size // 4, 3)),
                 sample={"container": label, "name_classes": sorted(set(c.classes)), "delete_modes": sorted(c.modes), "final_size": size})


def replay(w, ctx):
    from .. import env
    nix = env.import_nixio()
    import numpy as np
    ctx.shard = w.get("shard", 0)
    ctx.case(("replay",))
    Case(ctx, nix, np, env.scratch_file("c03_replay.nix"), ctx.rng("c03", w["case"]), w["container"], w).run()
