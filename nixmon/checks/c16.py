"""C16 - a data frame is a faithful table of named, typed columns.

Oracle: a table model (ordered column specs, list of row tuples, units).  After
every operation every read path is compared with the model; refused writes must
leave the table as it was.
"""
from collections import OrderedDict

ID = "C16"
LEVEL = "exploration"
TECHNIQUE = "runtime reference-model monitor: table model vs all read paths of the real DataFrame after every append/overwrite/refused write/reopen"
RULE = ("Case = one data frame (1-6 columns over text/int64/float64/bool/int8 with hostile names, 0-8 rows, five "
        "creation variants) driven through 1-12 operations from {append_rows, append_column, write_rows, write_column "
        "by name / by index (first and last always tried), write_rows with the indices in another order (refused, or every row where it was sent), "
        "write_cell by position / by name, units, reopen, seven classes of refused writes incl. a column with one unconvertible value and a units list of another length than the columns}; after every operation column names, dtypes, columns, units, shapes, the whole "
        "table, every column, one row and one cell per column are compared with the model.  Distinct by (schema "
        "type multiset, creation variant, set of operation kinds, has rows); trivial = none.")
ASSUMPTIONS = ["negative row indices are not generated (A10)",
               "with names+data creation the column types are those Python infers from the first row (int -> int64)",
               "a write to an unknown column of a frame without rows is a no-op and not judged"]

NSHARDS = 16
TYPES = ["text", "int", "float", "bool", "small"]


def plan(tier, seed):
    n = 40 if tier == "quick" else 600
    return [{"i": i, "cases": n} for i in range(NSHARDS)]


def same(a, b):
    if isinstance(a, float) and isinstance(b, float) and a != a and b != b:
        return True
    return a == b and type(a) == type(b) or (a == b and isinstance(a, (int, float)) and isinstance(b, (int, float))
                                             and isinstance(a, bool) == isinstance(b, bool))


def run_case(ctx, nix, np, path, rng, rep):
    import h5py
    spec = {"text": (str, lambda: rng.choice(["a", "üñ", "", "x y", "long" * 20, "∂", "Cafe\u0301", "\u2126", "\U0001f9ea", "trail "])),
            "int": (nix.DataType.Int64, lambda: rng.choice([rng.randint(-2 ** 40, 2 ** 40), 2 ** 63 - 1, -2 ** 63, 0])),
            "float": (nix.DataType.Double, lambda: rng.choice([0.5, -1.25, 1e300, float("inf"), 2.0, -0.0, float("nan"), 5e-324])),
            "bool": (nix.DataType.Bool, lambda: rng.random() < 0.5),
            "small": (np.int8, lambda: rng.randint(-128, 127))}
    npdt = {"int": np.dtype("int64"), "float": np.dtype("float64"), "bool": np.dtype("bool"), "small": np.dtype("int8")}

    def norm(v):
        if isinstance(v, np.generic):
            v = v.item()
        if isinstance(v, bytes):
            v = v.decode()
        return v

    f = nix.File.open(path, nix.FileMode.Overwrite)
    st = {"f": f}
    kinds = []
    flags = set()
    try:
        b = f.create_block("b", "t")
        ncol = rng.randint(1, 6)
        cols = []
        for i in range(ncol):
            cols.append((rng.choice(["c", "ü", "x y", "name", "id", "UPPER", "zz", "0"]) + str(i), rng.choice(TYPES)))

        def mkrow(cs=None):
            return tuple(spec[t][1]() for _, t in (cs or cols))
        rows = [mkrow() for _ in range(rng.randint(0, 8))]
        variants = ["dict", "names_dtypes"] + (["names_data", "structured", "dict+data"] if rows else [])
        variant = rng.choice(variants)
        info = dict(rep, variant=variant, schema=[t for _, t in cols], nrows=len(rows))

        def bad(key, **kw):
            ctx.violation(key, dict(info, ops=list(kinds), **kw), rep)
        try:
            if variant in ("dict", "dict+data"):
                df = b.create_data_frame("df", "t", col_dict=OrderedDict((n, spec[t][0]) for n, t in cols),
                                         data=(rows if variant == "dict+data" else None))
                if variant == "dict":
                    if rows:
                        df.append_rows(rows)
            elif variant == "names_dtypes":
                df = b.create_data_frame("df", "t", col_names=[n for n, _ in cols], col_dtypes=[spec[t][0] for _, t in cols],
                                         data=rows or None)
            elif variant == "names_data":
                if rng.random() < 0.5 and any(t == "small" for _, t in cols):
                    # cells that carry their own element type (NumPy scalars): the column takes the type of the first row's cell
                    flags.add("numpy_cells")
                    rows_in = [tuple(np.int8(v) if t == "small" else v for v, (_, t) in zip(r, cols)) for r in rows]
                    df = b.create_data_frame("df", "t", col_names=[n for n, _ in cols], data=rows_in)
                else:
                    df = b.create_data_frame("df", "t", col_names=[n for n, _ in cols], data=rows)
                    cols = [(n, "int" if t == "small" else t) for n, t in cols]
            else:
                dt = np.dtype([(n, "U100" if t == "text" else npdt[t]) for n, t in cols])
                arr = np.array(rows, dtype=dt)
                if len(cols) >= 2 and rng.random() < 0.5:
                    # a selection of the fields of a wider record array in ANOTHER order (what rec[["y", "x"]] gives): the fields of
                    # such an array are not laid out in the order of their names
                    flags.add("field_selection")
                    order = list(range(len(cols)))
                    rng.shuffle(order)
                    arr = arr[[cols[j][0] for j in order]]
                    cols = [cols[j] for j in order]
                    rows = [tuple(r[j] for j in order) for r in rows]
                df = b.create_data_frame("df", "t", data=arr)
        except Exception as e:
            bad("create:%s:raises_%s" % (variant, type(e).__name__), error=repr(e))
            return kinds, cols, variant, False
        units = None

        def check(tag):
            ctx.count("table_checks")
            ctxt = "+".join(sorted(flags)) or "plain"
            if tag.startswith("refused:"):
                ctxt = "after_%s:%s" % (tag, ctxt)
            try:
                if tuple(df.column_names) != tuple(c[0] for c in cols):
                    bad("column_names:wrong:%s" % ctxt, after=tag, got=list(df.column_names), expected=[c[0] for c in cols])
                if tuple(df.df_shape) != (len(rows), len(cols)):
                    bad("df_shape:wrong:%s" % ctxt, after=tag, got=list(df.df_shape), expected=[len(rows), len(cols)])
                if tuple(df.shape) != (len(rows),) or df.row_count() != len(rows) or len(df) != len(rows):
                    bad("row_count:wrong:%s" % ctxt, after=tag, got=[list(df.shape), df.row_count(), len(df)], expected=len(rows))
                dts = df.dtype
                if len(dts) != len(cols):
                    bad("dtype:wrong_length:%s" % ctxt, after=tag, got=len(dts), expected=len(cols))
                else:
                    for (cn, ct), d in zip(cols, dts):
                        if ct == "text":
                            if h5py.check_string_dtype(np.dtype(d)) is None and np.dtype(d).kind != "O":
                                bad("dtype:text_column_not_text", after=tag, column=cn, got=str(d))
                        elif np.dtype(d) != npdt[ct]:
                            bad("dtype:wrong:%s" % ct, after=tag, column=cn, got=str(d), expected=str(npdt[ct]))
                cs = df.columns
                if [c[0] for c in cs] != [c[0] for c in cols]:
                    bad("columns:wrong_names:%s" % ctxt, after=tag, got=[c[0] for c in cs], expected=[c[0] for c in cols])
                gu = df.units
                gu = None if gu is None else [norm(u) for u in gu]
                if units is None:
                    if gu is not None and any(u is not None for u in gu):
                        bad("units:unexpected:%s" % ctxt, after=tag, got=gu)
                elif gu != units:
                    bad("units:wrong:%s" % ctxt, after=tag, got=gu, expected=units)
                elif [c[2] for c in cs] != units and any(units):
                    bad("columns:wrong_units:%s" % ctxt, after=tag, got=[c[2] for c in cs], expected=units)
                allr = df[:] if len(rows) else []
                got = [tuple(norm(x) for x in r) for r in allr]
                if len(got) != len(rows) or any(len(g) != len(r) or not all(same(a, c) for a, c in zip(g, r)) for g, r in zip(got, rows)):
                    bad("table:wrong:%s" % ctxt, after=tag, got=got[:4], expected=rows[:4])
                for ci, (cn, ct) in enumerate(cols):
                    if rows:
                        col = [norm(x) for x in df.read_columns(name=[cn])]
                        if len(col) != len(rows) or not all(same(x, r[ci]) for x, r in zip(col, rows)):
                            bad("read_columns_name:wrong:%s" % ctxt, after=tag, column=cn, got=col[:4])
                        col = [norm(x) for x in df.read_columns(index=[ci])]
                        if len(col) != len(rows) or not all(same(x, r[ci]) for x, r in zip(col, rows)):
                            bad("read_columns_index:wrong:%s" % ctxt, after=tag, column=ci, got=col[:4])
                        ri = rng.choice([0, len(rows) - 1, rng.randrange(len(rows))])
                        c1 = norm(df.read_cell(position=[ri, ci]))
                        if not same(c1, rows[ri][ci]):
                            bad("read_cell_position:wrong:%s" % ctxt, after=tag, row=ri, col=ci, got=c1, expected=rows[ri][ci])
                        c2 = norm(df.read_cell(col_name=cn, row_idx=[ri]))
                        if not same(c2, rows[ri][ci]):
                            bad("read_cell_name:wrong:%s" % ctxt, after=tag, row=ri, col=cn, got=c2, expected=rows[ri][ci])
                if len(rows) >= 2 and len(cols) >= 2:
                    # several columns at once, a part of the rows that does not start at row 0 and may have a step, both layouts
                    a0 = rng.randrange(0, len(rows))
                    slc = slice(a0, rng.randint(a0, len(rows)), rng.choice([None, None, 2]))
                    k = rng.randint(2, min(3, len(cols)))
                    sub = sorted(rng.sample(range(len(cols)), k))
                    exp_rows = [tuple(r[c] for c in sub) for r in rows[slc]]
                    byname = rng.random() < 0.5
                    kw = {"name": [cols[c][0] for c in sub]} if byname else {"index": sub}
                    got = df.read_columns(slc=slc, group_by_cols=False, **kw)
                    got_rows = [tuple(norm(x) for x in r) for r in got]
                    if len(got_rows) != len(exp_rows) or any(not all(same(x, y) for x, y in zip(g, e)) for g, e in zip(got_rows, exp_rows)):
                        bad("read_columns_multi:by_rows:wrong:%s" % ctxt, after=tag, slc=repr(slc), columns=sub, got=got_rows[:4], expected=exp_rows[:4])
                    if len({cols[c][1] for c in sub}) == 1 and cols[sub[0]][1] != "text":
                        gc_ = df.read_columns(slc=slc, group_by_cols=True, **kw)
                        got_cols = [[norm(x) for x in col] for col in gc_]
                        exp_cols = [[r[j] for r in exp_rows] for j in range(len(sub))]
                        if len(got_cols) != len(exp_cols) or any(len(g) != len(e) or not all(same(x, y) for x, y in zip(g, e)) for g, e in zip(got_cols, exp_cols)):
                            bad("read_columns_multi:by_columns:wrong:%s" % ctxt, after=tag, slc=repr(slc), columns=sub, got=got_cols[:3], expected=exp_cols[:3])
                        ctx.count("multi_column_reads_grouped_by_columns")
                    ctx.count("multi_column_reads")
                if rows:
                    ri = rng.choice([0, len(rows) - 1])
                    r = [norm(x) for x in df.read_rows(ri)]
                    if len(r) != len(cols) or not all(same(a, c) for a, c in zip(r, rows[ri])):
                        bad("read_rows:wrong:%s" % ctxt, after=tag, row=ri, got=r, expected=rows[ri])
            except Exception as e:
                bad("read:raises_%s:%s" % (type(e).__name__, ctxt), after=tag, error=repr(e))

        check("create:" + variant)
        # two long-lived handles of the same frame (both have read already): every write goes through one of them,
        # every check reads through one of them - what was written must be what is read, whichever handle is used
        handles = [df, b.data_frames["df"]]
        df = handles[1]
        check("second_handle")
        OPS = ["append_rows", "append_column", "write_rows", "write_column_name", "write_column_idx", "write_cell_pos",
               "write_cell_name", "units", "reopen", "refused"]
        for step in range(rng.randint(1, 12)):
            op = rng.choice(OPS)
            kinds.append(op)
            ctxt = "+".join(sorted(flags)) or "plain"
            hi = rng.randrange(2)
            df = handles[hi]
            try:
                if op == "append_rows":
                    new = [mkrow() for _ in range(rng.randint(1, 3))]
                    df.append_rows(new)
                    rows += new
                elif op == "append_column":
                    if not rows:
                        continue
                    t = rng.choice(TYPES)
                    name = "n%d" % step
                    vals = [spec[t][1]() for _ in rows]
                    explicit = rng.random() < 0.7 or t == "small"
                    df.append_column(vals, name, datatype=spec[t][0] if explicit else None)
                    cols.append((name, t))
                    rows = [r + (v,) for r, v in zip(rows, vals)]
                    if units is not None:
                        units = units + [None]
                    flags.add("after_append_column")
                elif op == "write_rows":
                    if not rows:
                        continue
                    idx = sorted(rng.sample(range(len(rows)), rng.randint(1, min(3, len(rows)))))
                    if rng.random() < 0.3:
                        idx = [rng.choice([0, len(rows) - 1])]
                    new = [mkrow() for _ in idx]
                    if len(idx) >= 2 and rng.random() < 0.35:
                        # row indices in another order: either refused (the table stays as it is - judged by the check below)
                        # or every row lands at the index it was given for
                        order = list(range(len(idx)))
                        while order == sorted(order):
                            rng.shuffle(order)
                        idx = [idx[k] for k in order]
                        kinds[-1] = "write_rows_unsorted_index"
                        try:
                            df.write_rows(new, idx)
                            ctx.count("write_rows_unsorted_index:accepted")
                        except Exception:
                            ctx.count("write_rows_unsorted_index:refused")
                            new, idx = [], []
                    else:
                        df.write_rows(new, idx)
                    for i, r in zip(idx, new):
                        rows[i] = r
                elif op == "write_column_name":
                    if not rows:
                        continue
                    ci = rng.choice([0, len(cols) - 1, rng.randrange(len(cols))])
                    vals = [spec[cols[ci][1]][1]() for _ in rows]
                    df.write_column(vals, name=cols[ci][0])
                    rows = [r[:ci] + (v,) + r[ci + 1:] for r, v in zip(rows, vals)]
                elif op == "write_column_idx":
                    if not rows:
                        continue
                    ci = rng.choice([0, len(cols) - 1, rng.randrange(len(cols))])
                    vals = [spec[cols[ci][1]][1]() for _ in rows]
                    ctxt = ("index0" if ci == 0 else "index_n") + ":" + ctxt
                    df.write_column(vals, index=ci)
                    rows = [r[:ci] + (v,) + r[ci + 1:] for r, v in zip(rows, vals)]
                elif op == "write_cell_pos":
                    if not rows:
                        continue
                    ri = rng.choice([0, len(rows) - 1, rng.randrange(len(rows))])
                    ci = rng.choice([0, len(cols) - 1, rng.randrange(len(cols))])
                    v = spec[cols[ci][1]][1]()
                    df.write_cell(v, position=[ri, ci])
                    rows[ri] = rows[ri][:ci] + (v,) + rows[ri][ci + 1:]
                elif op == "write_cell_name":
                    if not rows:
                        continue
                    ri = rng.choice([0, len(rows) - 1, rng.randrange(len(rows))])
                    ci = rng.randrange(len(cols))
                    v = spec[cols[ci][1]][1]()
                    df.write_cell(v, col_name=cols[ci][0], row_idx=(ri if rng.random() < 0.5 else [ri]))
                    rows[ri] = rows[ri][:ci] + (v,) + rows[ri][ci + 1:]
                elif op == "units":
                    units = [rng.choice([None, "mV", "s", "kHz"]) for _ in cols]
                    df.units = units
                elif op == "reopen":
                    st["f"].close()
                    st["f"] = nix.File.open(path, nix.FileMode.ReadOnly)
                    df = st["f"].blocks[0].data_frames[0]
                    check("reopen_ro")
                    st["f"].close()
                    st["f"] = nix.File.open(path, nix.FileMode.ReadWrite)
                    b = st["f"].blocks[0]
                    df = b.data_frames[0]
                    handles = [df, b.data_frames["df"]]
                    handles[1][:] if len(handles[1]) else None
                elif op == "refused":
                    k = rng.choice(["rows_len", "col_len", "unknown_col", "oob_row", "dup_col", "col_value", "units_len"])
                    kinds[-1] = "refused:" + k
                    if k in ("col_len", "unknown_col", "dup_col", "col_value") and not rows:
                        continue
                    if k == "col_value":
                        # a column whose LAST value cannot be converted to the column's type (text into a number column)
                        numeric = [i for i, (_, t) in enumerate(cols) if t in ("int", "float", "small")]
                        if not numeric or len(rows) < 2:
                            continue
                        bad_ci = rng.choice(numeric)
                    try:
                        if k == "rows_len":
                            # the faulty row is the only one, or comes after well-formed rows of the same batch
                            good = [mkrow() for _ in range(rng.choice([0, 0, 1, 3]))]
                            faulty = mkrow() + (1,) if (rng.random() < 0.5 or len(cols) < 2) else mkrow()[:-1]
                            df.append_rows(good + [faulty])
                        elif k == "col_len":
                            df.write_column([spec[cols[0][1]][1]() for _ in range(len(rows) + 1)], name=cols[0][0])
                        elif k == "unknown_col":
                            df.write_column([1 for _ in rows], name="nope")
                        elif k == "oob_row":
                            df.write_rows([mkrow()], [len(rows) + rng.randint(0, 2)])
                        elif k == "dup_col":
                            df.append_column([1 for _ in rows], cols[0][0], datatype=nix.DataType.Int64)
                        elif k == "units_len":
                            # one unit per column: a list of another length does not describe the table
                            n = rng.choice([len(cols) - 1, len(cols) + 1, len(cols) + 3]) or len(cols) + 1
                            df.units = [rng.choice(["mV", "s", None]) for _ in range(n)] if rng.random() < 0.8 else ["mV"] * n
                        elif k == "col_value":
                            vals = [spec[cols[bad_ci][1]][1]() for _ in rows[:-1]] + ["not a number"]
                            if rng.random() < 0.5:
                                df.write_column(vals, name=cols[bad_ci][0])
                            else:
                                df.write_column(vals, index=bad_ci)
                        bad("refused:%s:accepted" % k)
                    except Exception:
                        ctx.count("refused_writes")
            except Exception as e:
                bad("%s:raises_%s:%s" % (op, type(e).__name__, ctxt), error=repr(e))
                break
            if op != "reopen":
                rh = rng.randrange(2)
                ctx.count("read_through_%s_handle" % ("writing" if rh == hi else "other"))
                df = handles[rh]
            check(kinds[-1])
        return kinds, cols, variant, bool(rows)
    finally:
        try:
            st["f"].close()
        except Exception:
            pass


def run_shard(spec, ctx):
    from .. import env
    nix = env.import_nixio()
    import numpy as np
    path = env.scratch_file("c16_%d.nix" % ctx.shard)
    for k in range(spec["cases"]):
        rng = ctx.rng("c16", k)
        rep = {"case": k, "shard": ctx.shard}
        r = ctx.guarded("case", run_case, ctx, nix, np, path, rng, rep)
        if r:
            kinds, cols, variant, hasrows = r
            ctx.case((tuple(sorted(t for _, t in cols)), variant, tuple(sorted(set(kinds))), hasrows),
                     sample={"schema": cols, "variant": variant, "ops": kinds})
        else:
            ctx.case(None)


def replay(w, ctx):
    from .. import env
    nix = env.import_nixio()
    import numpy as np
    ctx.shard = w.get("shard", 0)
    ctx.case(("replay",))
    run_case(ctx, nix, np, env.scratch_file("c16_replay.nix"), ctx.rng("c16", w["case"]), w)
