"""C20 - copies are complete, independent, and keep their internal links.

Case = one copy call (block / data array / data frame / tag / multi-tag / section / property) on link-rich source
content (fixture with every entity kind + random valid history), with a chosen id policy, name policy, destination
(same parent, other parent in the same file, other file) and - for sections - recursive or not, followed by random
mutations of one side.

Observation: a *content tree* of the source and of the copy, built by walking the public API from the entity:
every public readable property (introspection), data digests, dimension descriptors, owned children in order, and
every link (link lists, metadata, positions, extents, feature data, dimension-link target) resolved by HDF5 object
address to either ("int", path inside the tree) or ("ext", kind, content of the target without ids).  Ids are taken
out of the tree into a path -> id map.

Oracle:   tree(copy) == tree(source) with the root name replaced by the requested one;  id map equal (keep) or
fresh, canonical, pairwise distinct and disjoint from every id in both files before the call (fresh);  the returned
handle is the new object in the destination (not the source);  nothing that existed before the call (the source, every other entity
of both files) reads differently after it;  an existing destination name is refused and both
files are unchanged (canonical snapshot + raw scan);  after mutating one side the other side's tree is unchanged.
"""
import uuid

ID = "C20"
LEVEL = "exploration"
TECHNIQUE = ("differential runtime monitor around every copy call: content tree of source vs copy (all public properties by "
             "introspection, data digests, children, links resolved by HDF5 object address to inside/outside the copied subtree), "
             "id policy check against a raw HDF5 id scan of both files, whole-file snapshots around refused copies, "
             "tree of one side re-read after random mutations of the other")
RULE = ("Case = one copy call: kind in {block, data_array, data_frame, tag, multi_tag, section->file, section->section, property} x "
        "{keep ids, fresh ids} x {default name, new name, existing name, illegal name (slash)} x {same parent, other parent of the same file, other file} x "
        "{recursive, shallow} for sections, on a fixture with every entity kind grown by 0-40 random valid operations, followed by "
        "0-6 mutations of the copy or of the source; every link list of source and copy must agree with its iteration (membership, lookup by id).  Distinct by (kind, id policy, name policy, destination, children flag, "
        "outcome in {copied, refused}, set of internal link roles present in the source tree, mutated side); trivial = none.")
ASSUMPTIONS = ["links that leave the copied subtree (metadata, a copied tag's references, sources of a copied array) are compared by "
               "content of the target, not by identity (A7): an HDF5 object copy embeds them",
               "a copy into the same file with kept ids is exempt from id uniqueness (A8)",
               "a non-recursive section copy has the source's attributes and properties and no subsections",
               "object identity (is this link target inside the copied subtree? is the returned handle the source?) is decided by the "
               "HDF5 object address read through the entity's private _h5group handle",
               "timestamps are part of the content (an HDF5 object copy keeps them)"]

NSHARDS = 16
KINDS = ["block", "data_array", "data_frame", "tag", "multi_tag", "section_to_file", "section_to_section", "property"]

OWNED = {"Block": ("sources", "data_arrays", "data_frames", "tags", "multi_tags", "groups"),
         "Source": ("sources",), "Section": ("props", "sections"), "Tag": ("features",), "MultiTag": ("features",)}


def plan(tier, seed):
    return [{"i": i, "files": 2 if tier == "quick" else 14, "copies": 10 if tier == "quick" else 16, "extra": 30} for i in range(NSHARDS)]


# ------------------------------------------------------------------------------------------------------------
# content tree
# ------------------------------------------------------------------------------------------------------------
def addr_of(obj):
    import h5py
    g = obj._h5group
    h = getattr(g, "group", None)
    if h is None:
        h = g.dataset
    return (h.file.filename, h5py.h5o.get_info(h.id).addr)


class Tree:
    def __init__(self, nix, root, shallow_section=False):
        from .. import snapshot
        from nixio.container import Container
        from nixio.entity import Entity
        from nixio.feature import Feature
        from nixio.dimensions import DimensionLink
        self.nix, self.root, self.shallow_section = nix, root, shallow_section
        self.sn = snapshot.Snapper(nix)
        self.Container, self.Entity, self.Feature, self.DimensionLink = Container, Entity, Feature, DimensionLink
        self.paths = {}          # addr -> path
        self.ids = {}            # path -> id
        self.live = {}           # path -> live object
        self.roles = set()       # internal link roles seen
        self.nodes = {}          # path -> record
        self.collect(root, "")
        for path, obj in list(self.live.items()):
            self.nodes[path] = self.node(obj, path)

    def kind(self, obj):
        return type(obj).__name__

    def collect(self, obj, path):
        try:
            a = addr_of(obj)
        except Exception:
            a = ("noaddr", path)
        if a in self.paths:
            return
        self.paths[a] = path
        self.live[path] = obj
        try:
            self.ids[path] = obj.id
        except Exception as e:
            self.ids[path] = "<raises %s>" % type(e).__name__
        for cname in OWNED.get(self.kind(obj), ()):
            if self.shallow_section and cname == "sections":
                continue            # a non-recursive copy does not take the subsections: links to them leave the tree
            try:
                for i, ch in enumerate(getattr(obj, cname)):
                    self.collect(ch, "%s/%s[%d]" % (path, cname, i))
            except Exception:
                pass
        if isinstance(obj, self.nix.DataArray):
            try:
                for i, d in enumerate(obj.dimensions):
                    if d.has_link:
                        lk = d.dimension_link
                        self.ids["%s/dim[%d]/link" % (path, i)] = lk.id
            except Exception:
                pass

    def ext(self, tgt):
        """content of a link target outside the tree: kind, attributes, data digest - no ids, no further links"""
        rec = self.sn.record(tgt)
        out = {}
        for k, v in rec.items():
            if k == "id":
                continue
            if isinstance(v, list) and v and v[0] in ("ref", "container", "dimlink"):
                continue
            if v is None:
                continue        # an unset field and a further link that is not followed read the same here
            out[k] = v
        if isinstance(tgt, self.nix.DataArray):
            try:
                import numpy as np
                out["__data__"] = self.sn.canon(np.asarray(tgt[:]))
            except Exception as e:
                out["__data__"] = ["raises", type(e).__name__]
        return ["ext", self.kind(tgt), out]

    def resolve(self, tgt, role):
        try:
            a = addr_of(tgt)
        except Exception as e:
            return ["unresolvable", type(e).__name__]
        if a in self.paths:
            self.roles.add(role)
            return ["int", self.paths[a]]
        return self.ext(tgt)

    def lookup_agrees(self, cont, member):
        """a member yielded by iterating a link list is also found by the membership test and by its id (C03 on the copy)"""
        try:
            if member not in cont or member.id not in cont:
                return "member_not_found_by_membership_test"
            if addr_of(cont[member.id]) != addr_of(member):
                return "lookup_by_id_yields_another_object"
            return "agrees"
        except Exception as e:
            return "lookup_raises_" + type(e).__name__

    def node(self, obj, path):
        import numpy as np
        from ..snapshot import public_properties, DERIVED
        nix = self.nix
        rec = {"__kind__": self.kind(obj)}
        owned = OWNED.get(self.kind(obj), ())
        is_ds = isinstance(obj, (nix.DataArray, nix.DataFrame))
        for name in public_properties(type(obj)):
            if name in ("file", "id") or name in DERIVED or name.startswith("referring_") or (name == "data" and is_ds) or name == "dimensions":
                continue
            try:
                v = getattr(obj, name)
            except Exception as e:
                rec[name] = ["raises", type(e).__name__]
                continue
            if isinstance(v, (self.Entity, self.Feature)):
                rec[name] = self.resolve(v, name)
            elif isinstance(v, self.Container):
                if name in owned:
                    try:
                        rec[name] = ["owned", len(v)]
                    except Exception as e:
                        rec[name] = ["raises", type(e).__name__]
                else:
                    try:
                        rec[name] = ["links", [self.resolve(x, name) for x in v], [self.lookup_agrees(v, x) for x in v]]
                    except Exception as e:
                        rec[name] = ["raises", type(e).__name__]
            else:
                rec[name] = self.sn.canon(v)
        if isinstance(obj, nix.DataArray):
            try:
                rec["__data__"] = self.sn.canon(np.asarray(obj[:]))
            except Exception as e:
                rec["__data__"] = ["raises", type(e).__name__]
            dims = []
            try:
                for d in obj.dimensions:
                    dr = self.sn.record(d)
                    dr["__type__"] = type(d).__name__
                    if d.has_link:
                        lk = d.dimension_link
                        lrec = {k: v for k, v in self.sn.record(lk).items() if k not in ("id", "linked_data")}
                        try:
                            tgt = lk.linked_data
                            lrec["target"] = self.resolve(tgt, "dimension_link")
                        except Exception as e:
                            lrec["target"] = ["raises", type(e).__name__]
                        dr["__link__"] = lrec
                    dr.pop("dimension_link", None)
                    dims.append(dr)
            except Exception as e:
                dims = ["raises", type(e).__name__]
            rec["__dims__"] = dims
        elif isinstance(obj, nix.DataFrame):
            try:
                rec["__rows__"] = [self.sn.canon(tuple(r)) for r in (obj[:] if len(obj) else [])]
            except Exception as e:
                rec["__rows__"] = ["raises", type(e).__name__]
        return rec

    def content(self):
        return self.nodes


def tree_diff(a, b, limit=4):
    out = []
    for p in sorted(set(a) | set(b)):
        if p not in a:
            out.append({"path": p, "change": "only_in_copy", "kind": b[p].get("__kind__")})
        elif p not in b:
            out.append({"path": p, "change": "missing_in_copy", "kind": a[p].get("__kind__")})
        else:
            for k in sorted(set(a[p]) | set(b[p])):
                if a[p].get(k) != b[p].get(k):
                    out.append({"path": p, "kind": a[p].get("__kind__"), "field": k, "source": a[p].get(k), "copy": b[p].get(k)})
        if len(out) >= limit:
            break
    return out


def raw_ids(f):
    from .. import snapshot
    return snapshot.raw_entity_ids(snapshot.rawscan(f._h5file))


# ------------------------------------------------------------------------------------------------------------
# case generation
# ------------------------------------------------------------------------------------------------------------
def sections_with_parents(f):
    """[(section, parent section or None)] - own walk (Section.parent is C13's subject, _sec_parent is private)"""
    out, q = [], [(s, None) for s in f.sections]
    while q:
        s, par = q.pop(0)
        out.append((s, par))
        q.extend((c, s) for c in s.sections)
    return out


def all_sections(f):
    return [s for s, _ in sections_with_parents(f)]


def pick_case(nix, rng, kind, fa, fb, children=True):
    """returns dict(src, dest_parent, dest_kind, dest_file, call(name, keep, children) -> copy, container(dest) ...)"""
    dest_choice = rng.choice(["same_parent", "other_parent", "other_file"])
    blocks_a = list(fa.blocks)
    c = {"kind": kind, "dest": dest_choice}
    if kind == "block":
        src = rng.choice(blocks_a)
        if dest_choice == "other_parent":
            dest_choice = c["dest"] = "same_parent"          # a block's only possible parent in a file is the file
        df = fa if dest_choice == "same_parent" else fb
        c.update(src=src, dest_parent=df, dest_file=df, cont=lambda: df.blocks,
                 call=lambda name, keep, children: df.create_block(copy_from=src, keep_copy_id=keep, **({"name": name} if name else {})))
        return c
    if kind in ("data_array", "data_frame", "tag", "multi_tag"):
        cname = kind + "s"
        cands = [(b, x) for b in blocks_a for x in getattr(b, cname)]
        if not cands:
            return None
        sb, src = rng.choice(cands)
        c["via"] = "container"
        if rng.random() < 0.4:
            # the same entity, but the handle comes from a link (group list, tag references, positions, feature data)
            alts = []
            for g in sb.groups:
                alts += [("group." + cname, x) for x in getattr(g, cname) if x.id == src.id]
            if kind == "data_array":
                for t in list(sb.tags) + list(sb.multi_tags):
                    alts += [("tag.references", x) for x in t.references if x.id == src.id]
                    for ft in t.features:
                        try:
                            if ft.data.id == src.id:
                                alts.append(("feature.data", ft.data))
                        except RuntimeError:
                            pass        # the feature's data array was deleted by an earlier mutation (dangling, C04)
                for mt in sb.multi_tags:
                    alts += [("multi_tag.positions", mt.positions)] if mt.positions.id == src.id else []
            if alts:
                c["via"], src = rng.choice(alts)
        if dest_choice == "same_parent":
            db, df = sb, fa
        elif dest_choice == "other_parent":
            others = [b for b in blocks_a if b.id != sb.id]
            if not others:
                return None
            db, df = rng.choice(others), fa
        else:
            db, df = rng.choice(list(fb.blocks)), fb
        meth = getattr(db, "create_" + kind)
        c.update(src=src, dest_parent=db, dest_file=df, cont=lambda: getattr(db, cname),
                 call=lambda name, keep, children: meth(copy_from=src, keep_copy_id=keep, **({"name": name} if name else {})))
        return c
    if kind in ("section_to_file", "section_to_section"):
        secs = sections_with_parents(fa)
        if not secs:
            return None
        if not children and rng.random() < 0.7:
            # a non-recursive copy is only interesting for a source that has subsections to leave behind
            secs = [x for x in secs if len(x[0].sections)] or secs
        src, src_parent = rng.choice(secs)
        df = fb if dest_choice == "other_file" else fa
        if kind == "section_to_file":
            c.update(src=src, dest_parent=df, dest_file=df, cont=lambda: df.sections,
                     call=lambda name, keep, children: df.copy_section(src, children=children, keep_id=keep, **({"name": name} if name else {})))
            c["dest"] = "other_file" if df is fb else ("same_parent" if src_parent is None else "other_parent")
            return c
        dsecs = all_sections(df)
        if dest_choice == "same_parent":
            if src_parent is None:
                return None
            dp = src_parent
        else:
            # never copy a section into its own subtree (HDF5 would recurse)
            sub = set()
            if df is fa:
                q = [src]
                while q:
                    s = q.pop()
                    sub.add(s.id)
                    q.extend(s.sections)
            dsecs = [s for s in dsecs if s.id not in sub and (src_parent is None or df is not fa or s.id != src_parent.id)]
            if not dsecs:
                return None
            dp = rng.choice(dsecs)
        c.update(src=src, dest_parent=dp, dest_file=df, cont=lambda: dp.sections,
                 call=lambda name, keep, children: dp.copy_section(src, children=children, keep_id=keep, **({"name": name} if name else {})))
        return c
    if kind == "property":
        cands = [(s, p) for s in all_sections(fa) for p in s.props]
        if not cands:
            return None
        ss, src = rng.choice(cands)
        if dest_choice == "same_parent":
            dp, df = ss, fa
        elif dest_choice == "other_parent":
            others = [s for s in all_sections(fa) if s.id != ss.id]
            if not others:
                return None
            dp, df = rng.choice(others), fa
        else:
            dp, df = rng.choice(all_sections(fb)), fb
        c.update(src=src, dest_parent=dp, dest_file=df, cont=lambda: dp.props,
                 call=lambda name, keep, children: dp.create_property(copy_from=src, keep_copy_id=keep, **({"name": name} if name else {})))
        return c
    return None


# ------------------------------------------------------------------------------------------------------------
# mutations (valid calls on entities inside a tree)
# ------------------------------------------------------------------------------------------------------------
def mutate(nix, np, rng, tree, n):
    done = []
    live = sorted(tree.live.items())
    for _ in range(n):
        path, obj = rng.choice(live)
        k = type(obj).__name__
        opts = []
        if hasattr(obj, "definition") and k != "Feature":
            opts.append(("definition", lambda o=obj: setattr(o, "definition", "mutated %d" % rng.randrange(1000))))
        if k in ("Block", "DataArray", "DataFrame", "Tag", "MultiTag", "Group", "Source", "Section"):
            opts.append(("type", lambda o=obj: setattr(o, "type", "mutated.type")))
        if k == "DataArray":
            if obj.dtype.kind in "fiu" and obj.size:
                opts.append(("write_data", lambda o=obj: o.write_direct(np.asarray(o[:]) + 1)))
                opts.append(("append_data", lambda o=obj: o.append(np.asarray(o[:]), axis=0)))
            opts.append(("label", lambda o=obj: setattr(o, "label", "mutated")))
            opts.append(("append_set_dimension", lambda o=obj: o.append_set_dimension(["m"])))
            if len(obj.dimensions):
                opts.append(("delete_dimensions", lambda o=obj: o.delete_dimensions()))
                d = obj.dimensions[0]
                opts.append(("dimension_label", lambda d=d: setattr(d, "label", "mutated")))
        if k == "DataFrame" and len(obj):
            opts.append(("append_rows", lambda o=obj: o.append_rows([tuple(o[0])])))
        if k in ("Tag",):
            opts.append(("position", lambda o=obj: setattr(o, "position", [9.0] * max(1, len(o.position)))))
            if len(obj.references):
                opts.append(("del_reference", lambda o=obj: o.references.__delitem__(0)))
            if len(obj.features):
                opts.append(("del_feature", lambda o=obj: o.features.__delitem__(0)))
        if k == "MultiTag":
            opts.append(("units", lambda o=obj: setattr(o, "units", ["s"])))
            if len(obj.references):
                opts.append(("del_reference", lambda o=obj: o.references.__delitem__(0)))
        if k == "Group":
            for cn in ("data_arrays", "tags", "multi_tags", "data_frames"):
                if len(getattr(obj, cn)):
                    opts.append(("group_del_" + cn, lambda o=obj, cn=cn: getattr(o, cn).__delitem__(0)))
        if k == "Block":
            opts.append(("create_data_array", lambda o=obj: o.create_data_array("mut%d" % rng.randrange(10 ** 6), "t", data=[1.0])))
            opts.append(("create_source", lambda o=obj: o.create_source("mut%d" % rng.randrange(10 ** 6), "t")))
            for cn in ("data_arrays", "tags", "multi_tags", "groups", "sources", "data_frames"):
                if len(getattr(obj, cn)):
                    opts.append(("block_del_" + cn, lambda o=obj, cn=cn: getattr(o, cn).__delitem__(rng.randrange(len(getattr(o, cn))))))
        if k == "Section":
            opts.append(("create_property", lambda o=obj: o.create_property("mut%d" % rng.randrange(10 ** 6), [1, 2])))
            opts.append(("create_section", lambda o=obj: o.create_section("mut%d" % rng.randrange(10 ** 6), "t")))
            opts.append(("repository", lambda o=obj: setattr(o, "repository", "mutated")))
            if len(obj.props):
                opts.append(("del_property", lambda o=obj: o.props.__delitem__(0)))
            if len(obj.sections):
                opts.append(("del_subsection", lambda o=obj: o.sections.__delitem__(0)))
        if k == "Property":
            vals = obj.values
            if vals:
                opts.append(("values", lambda o=obj, v=vals: setattr(o, "values", list(v) + [v[0]])))
                opts.append(("delete_values", lambda o=obj: o.delete_values()))
            opts.append(("unit", lambda o=obj: setattr(o, "unit", "kV")))
        if k == "Feature":
            opts.append(("link_type", lambda o=obj: setattr(o, "link_type", nix.LinkType.Untagged)))
        if k == "Source":
            opts.append(("create_source", lambda o=obj: o.create_source("mut%d" % rng.randrange(10 ** 6), "t")))
        if not opts:
            continue
        name, fn = rng.choice(opts)
        try:
            fn()
            done.append("%s:%s" % (k, name))
        except Exception as e:     # the mutated entity may have been deleted by an earlier mutation of this round
            done.append("%s:%s:raised_%s" % (k, name, type(e).__name__))
    return done


# ------------------------------------------------------------------------------------------------------------
def is_uuid(s):
    try:
        return isinstance(s, str) and str(uuid.UUID(s)) == s.lower() and len(s) == 36
    except Exception:
        return False


def run_copy(ctx, nix, np, rng, fa, fb, kind, rep):
    from .. import snapshot
    children = True if not kind.startswith("section") else rng.random() < 0.55
    c = pick_case(nix, rng, kind, fa, fb, children)
    if c is None:
        ctx.count("no_candidate")
        return
    src, df = c["src"], c["dest_file"]
    keep = rng.random() < 0.5
    existing = {x.name for x in c["cont"]()}
    want_new = rng.random() < 0.6
    name = None
    if want_new:
        name = rng.choice(["copy", "zz copy", "ü-copy", "c0"]) + str(rng.randrange(1000))
        if rng.random() < 0.12 and existing:
            name = rng.choice(sorted(existing))            # an existing name, given explicitly
        elif rng.random() < 0.08:
            name = rng.choice(["a/b", "/lead", "trail/", "x/y/z"]) + str(rng.randrange(100))      # not a legal name (C03): refused like an existing one
    target_name = name or src.name
    illegal = "/" in target_name
    expect_refusal = target_name in existing or illegal
    info = dict(rep, kind=kind, keep_ids=keep, name=("illegal_slash" if illegal else "new" if name else "default"), dest=c["dest"], children=children,
                source=type(src).__name__, expect_refusal=expect_refusal, source_handle_via=c.get("via", "container"))
    t_src = Tree(nix, src, shallow_section=not children)
    ids_before = set(raw_ids(fa)) | set(raw_ids(fb))
    tag = "%s:%s:%s" % (kind, "keep" if keep else "fresh", c["dest"])
    ctx.count("source_handle_via:" + c.get("via", "container"))
    scan_a, scan_b = snapshot.rawscan(fa._h5file), snapshot.rawscan(fb._h5file)
    if expect_refusal:
        pre_a, pre_b = snapshot.snapshot(nix, fa), snapshot.snapshot(nix, fb)
        raw_a = snapshot.raw_fingerprint(snapshot.rawscan(fa._h5file))[0]
        raw_b = snapshot.raw_fingerprint(snapshot.rawscan(fb._h5file))[0]
    try:
        cp = c["call"](name, keep, children)
        raised = None
    except Exception as e:
        cp, raised = None, e
    sig_roles = tuple(sorted(t_src.roles))
    if expect_refusal:
        ctx.count("existing_name_cases")
        if raised is None:
            ctx.violation("%s_name_accepted:%s" % ("illegal" if illegal else "existing", kind), info, rep)
        post_a, post_b = snapshot.snapshot(nix, fa), snapshot.snapshot(nix, fb)
        for nm, pre, post, f, rawpre in (("source_file", pre_a, post_a, fa, raw_a), ("other_file", pre_b, post_b, fb, raw_b)):
            d = snapshot.diff(pre, post, limit=3)
            if d and raised is not None:
                ctx.violation("refused_copy_changed_%s:%s" % (nm, kind), dict(info, diff=d[:2], error=repr(raised)[:200]), rep)
            elif raised is not None and snapshot.raw_fingerprint(snapshot.rawscan(f._h5file))[0] != rawpre:
                ctx.violation("refused_copy_changed_raw_%s:%s" % (nm, kind), dict(info, error=repr(raised)[:200]), rep)
        ctx.case((kind, keep, bool(name), c["dest"], children, "refused", sig_roles), sample=dict(info, outcome="refused: %r" % (raised,)))
        return
    if raised is not None:
        from ..core import short_trace
        ctx.violation("copy_raises:%s:%s:%s" % (tag, "new_name" if name else "default_name", type(raised).__name__) + ("" if children else ":shallow"),
                      dict(info, error=repr(raised)[:300], trace=short_trace(raised)), rep)
        ctx.case((kind, keep, bool(name), c["dest"], children, "raised", sig_roles))
        return
    ctx.count("copies_made")
    # ---- the copy must not change anything that existed before: the source, its file, and every bystander in the destination.
    # Observed on the raw HDF5 objects (by object address, so that ids shared by kept-id copies cannot blur it): every object that
    # existed before the call still exists with the same attributes, data and link names; only the destination container (and,
    # when the container did not exist yet, its parent) gains a link.
    for nm, before, f in (("source_file", scan_a, fa), ("other_file", scan_b, fb)):
        after = snapshot.rawscan(f._h5file)
        role = "destination_file" if f is df else nm
        grown = []
        for addr, o in before["objects"].items():
            n = after["objects"].get(addr)
            what = None
            if n is None:
                what = "object_vanished"
            elif o["attrs"] != n["attrs"]:
                ch = sorted({k for k, _ in o["attrs"]} ^ {k for k, _ in n["attrs"]} | {k for (k, v), (k2, v2) in zip(o["attrs"], n["attrs"]) if k == k2 and v != v2})
                what = "attribute_changed:" + (ch[0] if ch else "?")
            elif o.get("data") != n.get("data"):
                what = "data_changed"
            elif sorted(o["paths"]) != sorted(n["paths"]):
                what = "links_to_object_changed"
            elif o.get("nlinks") != n.get("nlinks"):
                if f is df and n.get("nlinks") == o.get("nlinks") + 1:
                    grown.append(o["paths"][0])
                    continue
                what = "members_changed"
            if what:
                okind = "dataset" if o["kind"] == "dataset" else ("entity" if o.get("entity_id") else "container")
                ctx.violation("copy_changed_existing_content:%s:%s:%s:%s" % (kind + ("" if children else ":shallow"), "keep" if keep else "fresh", okind, what),
                              dict(info, where=role, object=o["paths"][:2], entity_id=o.get("entity_id")), rep)
                break
        if len(grown) > 2:
            ctx.violation("copy_changed_existing_content:%s:%s:several_groups_gained_members" % (kind, "keep" if keep else "fresh"), dict(info, where=role, groups=grown[:5]), rep)
        ctx.count("bystander_objects_compared", len(before["objects"]))
    ctx.count("bystander_checks")
    # ---- the returned handle ---------------------------------------------------------------------------------
    try:
        same_obj = addr_of(cp) == addr_of(src)
    except Exception:
        same_obj = False
    if same_obj:
        ctx.violation("returned_handle_is_source:%s" % tag, info, rep)
        # fetch the real copy by name to go on
        try:
            cands = [x for x in c["cont"]() if x.name == target_name and addr_of(x) != addr_of(src)]
            cp = cands[0] if cands else None
        except Exception:
            cp = None
        if cp is None:
            ctx.case((kind, keep, bool(name), c["dest"], children, "no_copy_found", sig_roles))
            return
    if cp.name != target_name:
        ctx.violation("returned_handle_wrong_name:%s" % tag, dict(info, got=cp.name, want=target_name), rep)
    try:
        members = [x for x in c["cont"]() if x.name == target_name]
        if len(members) != 1 or addr_of(members[0]) != addr_of(cp):
            ctx.violation("copy_not_in_destination_under_name:%s" % tag, dict(info, found=len(members)), rep)
    except Exception as e:
        ctx.violation("destination_lookup_raises:%s:%s" % (tag, type(e).__name__), dict(info, error=repr(e)[:200]), rep)
    # ---- completeness -----------------------------------------------------------------------------------------
    t_cp = Tree(nix, cp)
    want = {p: dict(r) for p, r in t_src.content().items()}
    if "name" in want[""]:
        want[""]["name"] = target_name
    if not children and isinstance(want[""].get("sections"), list):
        want[""]["sections"] = ["owned", 0]      # shallow: the section itself with its properties, no subsections
    got = t_cp.content()
    d = tree_diff(want, got)
    ctx.count("trees_compared")
    ctx.count("nodes_compared", len(want))
    for x in d[:3]:
        what = x.get("field") or x.get("change")
        ctx.violation("content_differs:%s:%s.%s" % (kind + ("" if children else ":shallow"), x.get("kind"), what), dict(info, diff=x), rep)
    # ---- ids ----------------------------------------------------------------------------------------------------
    ids_src, ids_cp = t_src.ids, t_cp.ids
    common = [p for p in ids_cp if p in ids_src]
    if keep:
        bad = [(p, ids_src[p], ids_cp[p]) for p in common if ids_src[p] != ids_cp[p]]
        if bad:
            ctx.violation("ids_not_kept:%s" % kind, dict(info, first=bad[:3], n=len(bad)), rep)
    else:
        same = [p for p in common if ids_src[p] == ids_cp[p]]
        if same:
            ctx.violation("ids_not_fresh:%s:%s" % (kind, "root" if "" in same else "nested:" + t_cp.nodes.get(same[0].rsplit("/link", 1)[0], {}).get("__kind__", "link")),
                          dict(info, paths=same[:4], n=len(same)), rep)
        vals = list(ids_cp.values())
        if len(set(vals)) != len(vals):
            ctx.violation("fresh_ids_repeat:%s" % kind, info, rep)
        notu = [v for v in vals if not is_uuid(v)]
        if notu:
            ctx.violation("fresh_id_not_a_uuid:%s" % kind, dict(info, ids=notu[:3]), rep)
        reused = [v for v in vals if v in ids_before]
        if reused and not same:
            ctx.violation("fresh_ids_reuse_existing:%s" % kind, dict(info, ids=reused[:3]), rep)
        # raw: no id anywhere below the copy may exist twice in the destination file
        dup = {i: a for i, a in raw_ids(df).items() if len(a) > 1 and i in set(vals)}
        if dup:
            ctx.violation("fresh_ids_duplicated_in_file:%s" % kind, dict(info, ids=list(dup)[:3]), rep)
    ctx.count("ids_compared", len(common))
    # ---- independence ---------------------------------------------------------------------------------------------
    nmut = rng.randrange(0, 7)
    side = rng.choice(["copy", "source"])
    done = []
    if nmut:
        victim, other_root = (t_cp, src) if side == "copy" else (t_src, cp)
        situation = "same_file_kept_ids" if (keep and df is fa) else ("same_file_fresh_ids" if df is fa else ("other_file_kept_ids" if keep else "other_file_fresh_ids"))
        before = Tree(nix, other_root).content()
        for _ in range(nmut):
            step = mutate(nix, np, rng, victim, 1)
            if not step:
                continue
            done += step
            try:
                after = Tree(nix, other_root).content()
                dd = tree_diff(before, after)
            except Exception as e:
                dd = [{"field": "tree_walk_raises_" + type(e).__name__}]
            ctx.count("independence_checks")
            if dd:
                x = dd[0]
                ctx.violation("not_independent:%s:%s:%s" % (kind, situation, step[-1]),
                              dict(info, mutated_side=side, mutations=done, diff=x), rep)
                break
            if step[-1].split(":")[1].startswith(("block_del", "del_", "group_del", "delete_dimensions")):
                break               # live handles of the mutated tree may be stale now
        ctx.count("mutations_applied", len([x for x in done if ":raised_" not in x]))
    ctx.case((kind, keep, bool(name), c["dest"], children, "copied", sig_roles, side if nmut else None),
             sample=dict(info, nodes=len(want), internal_link_roles=list(sig_roles), mutations=nmut))


def run_file(ctx, nix, np, rep, spec, only=None):
    from .. import catalog, clock, env
    rng = ctx.rng("c20", rep["file"])
    clock.install()
    pa, pb = env.scratch_file("c20a_%d.nix" % ctx.shard), env.scratch_file("c20b_%d.nix" % ctx.shard)
    fa = catalog.build_fixture(nix, pa, rng, rng.randint(0, spec["extra"]))
    fb = catalog.build_fixture(nix, pb, rng, rng.randint(0, 10))
    try:
        for ci in range(spec["copies"]):
            kind = KINDS[(ci + rep["file"] + ctx.shard) % len(KINDS)]
            crng = ctx.rng("c20", rep["file"], ci)
            if only is not None and ci != only:
                # keep the file history identical to the original run: execute silently
                pass
            ctx.guarded("copy", run_copy, ctx, nix, np, crng, fa, fb, kind, dict(rep, copy=ci))
    finally:
        for f in (fa, fb):
            try:
                f.close()
            except Exception:
                pass


def run_shard(spec, ctx):
    import numpy as np
    from .. import env
    nix = env.import_nixio()
    for fi in range(spec["files"]):
        rep = {"file": fi, "shard": ctx.shard, "extra": spec["extra"], "copies": spec["copies"]}
        ctx.guarded("file", run_file, ctx, nix, np, rep, spec)


def finish(m, tier):
    c = m["counters"]
    if not c.get("trees_compared") or not c.get("independence_checks") or not c.get("existing_name_cases") or not c.get("mutations_applied") or not c.get("bystander_checks"):
        m["inconclusive"].append("a deciding monitor was never reached: %r" % {k: c.get(k) for k in ("trees_compared", "independence_checks", "existing_name_cases")})


def replay(w, ctx):
    import numpy as np
    from .. import env
    nix = env.import_nixio()
    ctx.shard = w.get("shard", 0)
    ctx.case(("replay",))
    run_file(ctx, nix, np, {"file": w["file"], "shard": ctx.shard, "extra": w.get("extra", 40), "copies": w.get("copies", 12)},
             {"extra": w.get("extra", 40), "copies": w.get("copy", 0) + 1})
