"""C05 - links are aliases of the original entity, never copies, and stay in their block.

One target entity per case (array, frame, tag, multi-tag, nested source or nested section) is linked from as many
places as its kind allows - group member lists of several groups, tag and multi-tag references, positions and
extents, feature data, source lists, metadata links, dimension links - in a file whose blocks reuse the same names.

  alias        every path yields the same id and the same record (every public readable property + data digest)
  propagate    a mutation made through ONE path (handle fetched anew, or a long-lived handle) is read back through
               EVERY path, through fresh and through long-lived handles, and after reopening
  dimension    a range / set dimension linked to an array (every index vector with exactly one -1) or to a frame
               column reports the target's CURRENT vector / unit / label, follows later changes of the target;
               explicit ticks replace the link and stop following; linking again replaces the ticks
  membership   a link list refuses a wrong-kind entity, an entity of another block (with a different or the SAME
               name as a local one) and a source outside the block's source tree - and is unchanged afterwards;
               it accepts a source from any depth of its own block's tree
"""
ID = "C05"
LEVEL = "exploration"
TECHNIQUE = ("runtime monitoring of link topologies: path-agreement oracle (same id and record through every link), write-through-one-"
             "path / read-through-all-paths differential incl. long-lived handles and reopen, NumPy model of linked dimension vectors, "
             "membership-rule monitor with list-unchanged check after each refusal")
RULE = ("Case = one target entity linked through all roles its kind can receive (1-3 group lists per role over 2-3 blocks with "
        "equal names) x 3-6 mutations (attribute, data region write, append, dimension append, metadata, calibration), each "
        "written through one randomly chosen path and read through all paths (fresh and kept handles), then reopen; plus, for "
        "array targets of rank 1-3, every dimension-link index vector with exactly one -1 (ticks/unit/label follow the target; "
        "ticks replace link and vice versa); plus 12-20 membership faults on the link lists of the target's block; plus role links (positions, extents, "
        "feature data, metadata, section link) re-pointed or cleared through one of two long-lived handles of the holder and read through the other.  Distinct by "
        "(target kind, roles linked, mutation kind, write-path role -> read-path role, handle age, foreign-name relation / "
        "dimension-link index pattern); trivial = none.")
ASSUMPTIONS = ["a dimension link exposes the target's stored values (linked targets are not calibrated here, A13)",
               "MultiTag.positions/extents and Feature.data are role links, not link lists: only the alias and propagation parts are judged for them, "
               "and Feature.data additionally for the membership rule that the code itself states (same block)",
               "re-appending a member leaves the list as it is or moves the entry to the end (A19)",
               "order of the roles' handles: 'kept' handles are fetched before the mutation and reused afterwards"]

NSHARDS = 16


def plan(tier, seed):
    n = 8 if tier == "quick" else 110
    return [{"i": i, "cases": n} for i in range(NSHARDS)]


def ids(cont):
    return [x.id for x in cont]


class Case:
    def __init__(self, ctx, nix, np, path, rng, rep):
        self.ctx, self.nix, self.np, self.path, self.rng, self.rep = ctx, nix, np, path, rng, rep
        self.sigs = []
        self.log = []

    def viol(self, mech, detail):
        self.ctx.violation(mech, dict(detail, case=self.rep, log=self.log[-8:]), self.rep)

    # ---- file -----------------------------------------------------------------------------------
    def build(self, f):
        nix, rng, np = self.nix, self.rng, self.np
        from collections import OrderedDict
        secs = []
        for sn in ("meta", "same"):
            s = f.create_section(sn, "t")
            s.create_property("p", [1, 2])
            for cn in ("same", "child"):
                c = s.create_section(cn, "t")
                c.create_property("q", ["a"])
                c.create_section("same", "t")
            secs.append(s)
        for bi in range(rng.randint(2, 3)):
            b = f.create_block("blk%d" % bi, "t")
            for nm, shape in (("same", (4,)), ("a", (3, 4)), ("b", (2, 3, 4)), ("vec", (5,)), ("ints", (4,))):
                dt = np.int32 if nm == "ints" else np.float64
                data = (np.arange(int(np.prod(shape))).reshape(shape) + 10 * bi).astype(dt)
                da = b.create_data_array(nm, "arr", data=data, label="lbl%d" % bi, unit="mV")
                for _ in shape:
                    da.append_set_dimension()
            b.create_data_array("text", "arr", dtype=nix.DataType.String, data=np.array(["x", "y", "z", "w"], dtype=object))
            df = b.create_data_frame("same", "frame", col_dict=OrderedDict([("num", nix.DataType.Double), ("txt", str), ("k", nix.DataType.Int64)]),
                                     data=[(0.5 + bi, "r0", 1), (1.5 + bi, "r1", 2), (2.5 + bi, "r2", 3), (3.5 + bi, "r3", 4)])
            df.units = ["s", None, "mV"]
            for nm in ("same", "t2"):
                b.create_tag(nm, "tag", [0.0])
            for nm in ("same", "m2"):
                b.create_multi_tag(nm, "mtag", b.data_arrays["vec"])
            for nm in ("same", "g2", "g3"):
                b.create_group(nm, "grp")
            for nm in ("same", "src"):
                s = b.create_source(nm, "src")
                for cn in ("same", "child"):
                    c = s.create_source(cn, "src")
                    c.create_source("same", "src")

    def block(self, f, i=0):
        return f.blocks["blk%d" % i]

    # ---- target and its access paths -------------------------------------------------------------------
    def wire(self, f, kind):
        """Link the target from everywhere; returns (target id, {role label: getter(file)->handle})."""
        nix, rng = self.nix, self.rng
        b = self.block(f)
        P = {}
        groups = lambda ff: list(self.block(ff).groups)      # noqa
        if kind == "DataArray":
            tname = rng.choice(["same", "a", "b", "vec", "ints"])
            tgt = b.data_arrays[tname]
            tid = tgt.id
            P["block.data_arrays[name]"] = lambda ff: self.block(ff).data_arrays[tname]
            P["block.data_arrays[id]"] = lambda ff: self.block(ff).data_arrays[tid]
            for gi in range(rng.randint(1, 3)):
                groups(f)[gi].data_arrays.append(tgt)
                P["group%d.data_arrays" % gi] = lambda ff, gi=gi: groups(ff)[gi].data_arrays[tid]
            for ti, tg in enumerate(b.tags):
                tg.references.append(b.data_arrays[tid])
                P["tag%d.references" % ti] = lambda ff, ti=ti: self.block(ff).tags[ti].references[tid]
            b.multi_tags[0].references.append(tgt)
            P["mtag.references"] = lambda ff: self.block(ff).multi_tags[0].references[tid]
            if rng.random() < 0.6:
                b.multi_tags[0].positions = tgt
                P["mtag.positions"] = lambda ff: self.block(ff).multi_tags[0].positions
            if rng.random() < 0.6:
                b.multi_tags[1].extents = tgt
                P["mtag.extents"] = lambda ff: self.block(ff).multi_tags[1].extents
            b.tags[0].create_feature(tgt, rng.choice(list(nix.LinkType)))
            P["tag.feature.data"] = lambda ff: self.block(ff).tags[0].features[0].data
            if rng.random() < 0.5:
                b.multi_tags[1].create_feature(tgt, nix.LinkType.Untagged)
            else:
                # a feature that pointed to a data FRAME first and is re-pointed to the array: still an alias of the array
                ft = b.multi_tags[1].create_feature(b.data_frames["same"], nix.LinkType.Untagged)
                ft.data = tgt
            P["mtag.feature.data"] = lambda ff: self.block(ff).multi_tags[1].features[0].data
        elif kind == "DataFrame":
            tgt = b.data_frames["same"]
            tid = tgt.id
            P["block.data_frames[name]"] = lambda ff: self.block(ff).data_frames["same"]
            for gi in range(rng.randint(1, 3)):
                groups(f)[gi].data_frames.append(tgt)
                P["group%d.data_frames" % gi] = lambda ff, gi=gi: groups(ff)[gi].data_frames[tid]
            if rng.random() < 0.5:
                b.tags[1].create_feature(tgt, nix.LinkType.Indexed)
            else:
                # the other way round: first an array, then re-pointed to the frame
                ft = b.tags[1].create_feature(b.data_arrays["same"], nix.LinkType.Indexed)
                ft.data = tgt
            P["tag.feature.data"] = lambda ff: self.block(ff).tags[1].features[0].data
        elif kind in ("Tag", "MultiTag"):
            cname = "tags" if kind == "Tag" else "multi_tags"
            tgt = getattr(b, cname)["same"]
            tid = tgt.id
            P["block.%s[name]" % cname] = lambda ff: getattr(self.block(ff), cname)["same"]
            P["block.%s[index]" % cname] = lambda ff: getattr(self.block(ff), cname)[0]
            for gi in range(rng.randint(1, 3)):
                getattr(groups(f)[gi], cname).append(tgt)
                P["group%d.%s" % (gi, cname)] = lambda ff, gi=gi: getattr(groups(ff)[gi], cname)[tid]
        elif kind == "Source":
            depth = rng.randint(0, 2)
            chain = ["same", "same", "same"][:depth + 1]

            def direct(ff):
                s = self.block(ff).sources[chain[0]]
                for n in chain[1:]:
                    s = s.sources[n]
                return s
            tgt = direct(f)
            tid = tgt.id
            P["source_tree[depth%d]" % depth] = direct
            P["block.find_sources"] = lambda ff: self.block(ff).find_sources(filtr=lambda s: s.id == tid)[0]
            holders = [("data_arrays", "a"), ("data_arrays", "same"), ("tags", "same"), ("multi_tags", "same"), ("groups", "g2"), ("data_frames", "same")]
            for cn, nm in holders:
                h = getattr(b, cn)[nm]
                if not hasattr(h, "sources"):
                    continue
                h.sources.append(tgt)
                P["%s[%s].sources" % (cn, nm)] = lambda ff, cn=cn, nm=nm: getattr(self.block(ff), cn)[nm].sources[tid]
        else:  # Section
            depth = rng.randint(0, 2)
            chain = ["same", "same", "same"][:depth + 1]

            def direct(ff):
                s = ff.sections[chain[0]]
                for n in chain[1:]:
                    s = s.sections[n]
                return s
            tgt = direct(f)
            tid = tgt.id
            P["section_tree[depth%d]" % depth] = direct
            P["file.find_sections"] = lambda ff: ff.find_sections(filtr=lambda s: s.id == tid)[0]
            for bi, blk in enumerate(f.blocks):
                holders = [("block", None), ("data_arrays", "a"), ("tags", "same"), ("multi_tags", "m2"), ("groups", "same"), ("data_frames", "same"),
                           ("sources", "src")]
                for cn, nm in rng.sample(holders, rng.randint(2, 5)):
                    if cn == "block":
                        blk.metadata = tgt
                        P["blk%d.metadata" % bi] = lambda ff, bi=bi: self.block(ff, bi).metadata
                    else:
                        getattr(blk, cn)[nm].metadata = tgt
                        P["blk%d.%s[%s].metadata" % (bi, cn, nm)] = lambda ff, bi=bi, cn=cn, nm=nm: getattr(self.block(ff, bi), cn)[nm].metadata
            f.sections["meta"].link = tgt
            P["section.link"] = lambda ff: ff.sections["meta"].link
        return tid, P

    # ---- alias ----------------------------------------------------------------------------------------
    def check_alias(self, f, tid, P, when, kept=None):
        from .. import snapshot
        sn = snapshot.Snapper(self.nix)
        ref = None
        for role, get in P.items():
            for age, h in (("fresh", None), ("kept", (kept or {}).get(role))):
                if age == "kept" and h is None:
                    continue
                try:
                    h = h or get(f)
                    self.ctx.count("alias_reads")
                    if h is None or h.id != tid:
                        self.viol("alias:other_entity_or_none:%s" % role.split("[")[0], {"role": role, "when": when, "expected_id": tid, "got": getattr(h, "id", None)})
                        continue
                    rec = sn.record(h)
                    if hasattr(h, "dtype") and hasattr(h, "polynom_coefficients"):
                        rec["__data__"] = sn.canon(self.np.asarray(h[:]))
                    elif type(h).__name__ == "DataFrame":
                        rec["__rows__"] = [sn.canon(tuple(r)) for r in h[:]] if len(h) else []
                except Exception as e:
                    from ..core import raised_in_library
                    if not raised_in_library(e):
                        raise
                    self.viol("alias:raises_%s:%s" % (type(e).__name__, role.split("[")[0]), {"role": role, "when": when, "age": age, "error": repr(e)[:200]})
                    continue
                if ref is None:
                    ref = (role, rec)
                elif rec != ref[1]:
                    flds = sorted(k for k in set(rec) | set(ref[1]) if rec.get(k) != ref[1].get(k))
                    self.viol("alias:record_differs:%s:%s:%s" % (role.split("[")[0], age, ",".join(flds[:3])),
                              {"when": when, "role": role, "reference_role": ref[0], "fields": {k: [ref[1].get(k), rec.get(k)] for k in flds[:3]}})

    # ---- propagation ------------------------------------------------------------------------------------
    def mutations(self, kind):
        nix, np, rng = self.nix, self.np, self.rng
        M = []

        def P_fresh(st):
            return st["__fresh__"]()

        def attr(name, pool, canon=lambda v: v):
            def do(h, st):
                v = rng.choice([x for x in pool if canon(x) != st.get(name, "__unset__")])
                setattr(h, name, v)
                st[name] = canon(v)
            M.append(("attr:" + name, do, lambda h, st, name=name: getattr(h, name) == st[name], name))
        attr("definition", [None, "d1", "dü2", "x" * 50])
        attr("type", ["ta", "tb", "t.c"])
        if kind == "DataArray":
            attr("label", [None, "L1", "L2"])
            attr("unit", [None, "s", "kHz", "mV"])

            def region(h, st):
                cur = np.array(h[:])
                sl = tuple(slice(*sorted([rng.randint(0, s), rng.randint(0, s)])) for s in cur.shape)
                if not cur[sl].size:
                    sl = tuple(slice(0, 1) for _ in cur.shape)
                v = (np.ones(cur[sl].shape) * rng.randint(100, 999)).astype(cur.dtype)
                h[sl] = v
                cur[sl] = v
                st["data"] = cur
            M.append(("data:region_write", region, lambda h, st: np.array_equal(np.asarray(h[:]), st["data"]) and tuple(h.shape) == st["data"].shape, "data"))

            def append(h, st):
                cur = np.array(h[:])
                ax = rng.randrange(cur.ndim)
                sh = list(cur.shape)
                sh[ax] = rng.randint(1, 2)
                v = (np.ones(sh) * rng.randint(100, 999)).astype(cur.dtype)
                h.append(v, axis=ax)
                st["data"] = np.concatenate([cur, v], axis=ax)
            M.append(("data:append", append, lambda h, st: tuple(h.shape) == st["data"].shape and np.array_equal(np.asarray(h[:]), st["data"]), "data"))

            def dim(h, st):
                h.append_sampled_dimension(rng.choice([0.5, 2.0]), unit=rng.choice(["s", None]))
                st["ndims"] = st.get("ndims", len(h.dimensions) - 1) + 1
            M.append(("dimension:append", dim, lambda h, st: len(h.dimensions) == st["ndims"], "ndims"))
        if kind == "DataFrame":
            def cell(h, st):
                v = float(rng.randint(100, 999))
                r = rng.randrange(len(h))
                h.write_cell(v, position=[r, 0])
                st["cell"] = (r, v)
            M.append(("data:write_cell", cell, lambda h, st: float(h.read_cell(position=[st["cell"][0], 0])) == st["cell"][1], "cell"))

            def rows(h, st):
                h.append_rows([(9.5, "new", 9)])
                st["nrows"] = st.get("nrows", len(h) - 1) + 1
            M.append(("data:append_rows", rows, lambda h, st: len(h) == st["nrows"], "nrows"))
        if kind == "Tag":
            attr("position", [[1.0], [2.0, 3.0], [0.5, 1.5, 2.5]], canon=lambda v: tuple(v))
            M[-1] = (M[-1][0], M[-1][1], lambda h, st: tuple(h.position) == st["position"], "position")
            attr("units", [["s"], ["mV", "s"], []], canon=lambda v: tuple(v))
            M[-1] = (M[-1][0], M[-1][1], lambda h, st: tuple(h.units) == st["units"], "units")
        if kind == "MultiTag":
            attr("units", [["s"], ["mV", "s"], []], canon=lambda v: tuple(v))
            M[-1] = (M[-1][0], M[-1][1], lambda h, st: tuple(h.units) == st["units"], "units")
        if kind in ("Tag", "MultiTag"):
            def ref(h, st):
                b = h._parent
                cand = [d for d in b.data_arrays if d.id not in ids(h.references)]
                if cand:
                    h.references.append(rng.choice(cand))
                st["refs"] = ids(h.references)
            M.append(("links:add_reference", ref, lambda h, st: ids(h.references) == st["refs"], "refs"))
        if kind in ("Tag", "MultiTag", "DataArray"):
            def churn(h, st):
                """empty -> one entry -> empty -> one entry on the target's own source list, every step through another
                handle of the target (the list's container group is created by the first append and removed with the last entry)"""
                hs = [h] + st["__handles__"]
                b = h._parent
                pool = [b.sources["src"], b.sources["same"], b.sources["src"].sources["child"]]
                for i in range(rng.randint(2, 4)):
                    hh = hs[i % len(hs)] if rng.random() < 0.7 else rng.choice(hs)
                    cur = ids(hh.sources)
                    if cur and (len(cur) > 1 or rng.random() < 0.6):
                        del hh.sources[cur[-1]]
                    else:
                        hh.sources.append(rng.choice([x for x in pool if x.id not in cur]))
                    ids(rng.choice(hs).sources)        # some other handle looks at the list in between
                st["srcs"] = ids(P_fresh(st).sources)
            M.append(("links:source_list_churn", churn, lambda h, st: ids(h.sources) == st["srcs"], "srcs"))
        if kind == "Section":
            attr("repository", [None, "r1", "r2"])

            def prop(h, st):
                n = "np%d" % len(h.props)
                h.create_property(n, [rng.randint(0, 99)])
                st["props"] = [p.name for p in h.props]
            M.append(("children:create_property", prop, lambda h, st: [p.name for p in h.props] == st["props"], "props"))

            def pval(h, st):
                v = [rng.randint(100, 999)]
                if "ints" not in h.props:
                    h.create_property("ints", [0])
                    if "props" in st:
                        st["props"] = [p.name for p in h.props]
                h.props["ints"].values = v
                st["pval"] = tuple(v)
            M.append(("children:property_values", pval, lambda h, st: tuple(int(x) for x in h.props["ints"].values) == st["pval"], "pval"))
        if kind == "Source":
            def child(h, st):
                h.create_source("n%d" % len(h.sources), "src")
                st["children"] = [s.name for s in h.sources]
            M.append(("children:create_source", child, lambda h, st: [s.name for s in h.sources] == st["children"], "children"))
        if kind != "Section":
            def md(h, st):
                f = h.file
                cur = st.get("md")
                cand = [s for s in f.find_sections() if s.id != cur]
                s = rng.choice(cand)
                h.metadata = s
                st["md"] = s.id
            M.append(("metadata:set", md, lambda h, st: h.metadata is not None and h.metadata.id == st["md"], "md"))
        return M

    def propagate(self, st_f, tid, P, kind):
        rng, ctx = self.rng, self.ctx
        f = st_f["f"]
        M = self.mutations(kind)
        state = {}
        kept = {}
        for role, get in P.items():
            try:
                kept[role] = get(f)
            except Exception:
                pass
        checks = {}
        for mi in range(rng.randint(3, 6)):
            label, do, ok, key = rng.choice(M)
            wrole = rng.choice(sorted(P))
            wage = rng.choice(["fresh", "kept"])
            wh = kept.get(wrole) if wage == "kept" else P[wrole](f)
            if wh is None:
                continue
            self.log.append("%s via %s(%s)" % (label, wrole, wage))
            state["__handles__"] = [h for h in kept.values() if h is not None and h is not wh]
            rng.shuffle(state["__handles__"])
            state["__fresh__"] = lambda: P[sorted(P)[0]](f)
            try:
                do(wh, state)
            except Exception as e:
                from ..core import raised_in_library
                if not raised_in_library(e):
                    raise
                self.viol("propagate:mutation_raises_%s:%s:via_%s" % (type(e).__name__, label, wrole.split("[")[0].split(".")[-1]),
                          {"mutation": label, "write_path": wrole, "error": repr(e)[:300]})
                continue
            checks[key] = (label, ok)
            ctx.count("mutations_applied")
            # read through every path, fresh and kept, everything mutated so far
            for rrole, get in P.items():
                for rage in ("fresh", "kept"):
                    rh = kept.get(rrole) if rage == "kept" else get(f)
                    if rh is None:
                        continue
                    for k2, (lab2, ok2) in checks.items():
                        ctx.count("propagation_reads")
                        try:
                            good = ok2(rh, state)
                        except Exception as e:
                            good = False
                            err = repr(e)[:200]
                        else:
                            err = None
                        if not good:
                            self.viol("propagate:%s:not_seen:write_%s:read_%s_%s" % (lab2, "via_" + wrole.split("[")[0].split(".")[-1] if lab2 == label else "earlier",
                                                                                        rrole.split("[")[0].split(".")[-1], rage),
                                      {"mutation": lab2, "written_via": wrole if lab2 == label else "(earlier step)", "write_handle": wage, "read_via": rrole, "read_handle": rage,
                                       "expected": repr(state.get(k2))[:200], "error": err})
                    self.sigs.append((kind, label, wrole.split("[")[0].split(".")[-1], rrole.split("[")[0].split(".")[-1], wage + ">" + rage))
        self.check_alias(f, tid, P, "after_mutations", kept)
        # reopen
        f.close()
        mode = rng.choice([self.nix.FileMode.ReadOnly, self.nix.FileMode.ReadWrite])
        f = st_f["f"] = self.nix.File.open(self.path, mode)
        for rrole, get in P.items():
            try:
                rh = get(f)
            except Exception as e:
                self.viol("propagate:path_broken_after_reopen:%s" % rrole.split("[")[0].split(".")[-1], {"role": rrole, "error": repr(e)[:200]})
                continue
            for k2, (lab2, ok2) in checks.items():
                ctx.count("propagation_reads_after_reopen")
                try:
                    good = ok2(rh, state)
                except Exception:
                    good = False
                if not good:
                    self.viol("propagate:%s:lost_after_reopen:read_%s" % (lab2, rrole.split("[")[0].split(".")[-1]), {"mutation": lab2, "read_via": rrole, "expected": repr(state.get(k2))[:200]})
        self.check_alias(f, tid, P, "after_reopen")
        if mode == self.nix.FileMode.ReadOnly:
            f.close()
            st_f["f"] = self.nix.File.open(self.path, self.nix.FileMode.ReadWrite)

    # ---- dimension links ----------------------------------------------------------------------------------
    def dimension_links(self, f):
        nix, np, rng, ctx = self.nix, self.np, self.rng, self.ctx
        b = self.block(f)
        tname = rng.choice(["vec", "a", "b", "ints"])
        tgt = b.data_arrays[tname]
        shape = tuple(tgt.shape)
        holder = b.create_data_array("holder_" + tname, "arr", data=np.zeros(3))
        import itertools
        vectors = []
        for ax in range(len(shape)):
            others = [range(s) for i, s in enumerate(shape) if i != ax]
            for combo in itertools.product(*others):
                idx = list(combo)
                idx.insert(ax, -1)
                vectors.append(idx)
        rng.shuffle(vectors)
        rd = holder.append_range_dimension([1.0, 2.0, 3.0])
        sd = holder.append_set_dimension(["x", "y", "z"]) if rng.random() < 0.5 else None

        def expect_vec(idx):
            data = np.asarray(b.data_arrays[tname]._h5group.group["data"][...])
            sl = tuple(slice(None) if i == -1 else i for i in idx)
            return data[sl]

        def check(dim, idx, when):
            ctx.count("dimension_link_checks")
            d = holder.dimensions[dim.index - 1] if rng.random() < 0.5 else dim     # fresh or kept descriptor handle
            t = b.data_arrays[tname]
            pat = "rank%d_axis%d" % (len(idx), idx.index(-1))
            try:
                vals = d.ticks if isinstance(d, nix.RangeDimension) else d.labels
                exp = expect_vec(idx)
                if len(vals) != len(exp) or not np.array_equal(np.asarray(vals, dtype=exp.dtype), exp):
                    self.viol("dimlink:%s:vector_differs:%s:%s" % (type(d).__name__, when, pat), {"index": idx, "got": list(vals)[:8], "expected": exp.tolist()[:8]})
                if not d.has_link:
                    self.viol("dimlink:%s:has_link_false:%s" % (type(d).__name__, when), {"index": idx})
                if isinstance(d, nix.RangeDimension):
                    if d.unit != t.unit:
                        self.viol("dimlink:unit_differs:%s" % when, {"got": d.unit, "expected": t.unit})
                    if d.label != t.label:
                        self.viol("dimlink:label_differs:%s" % when, {"got": d.label, "expected": t.label})
                    if not d.is_alias:
                        self.viol("dimlink:is_alias_false:%s" % when, {"index": idx})
                lk = d.dimension_link
                if lk is None or tuple(lk.index) != tuple(idx):
                    self.viol("dimlink:index_not_reported:%s" % when, {"index": idx, "got": None if lk is None else list(lk.index)})
            except Exception as e:
                from ..core import raised_in_library
                if not raised_in_library(e):
                    raise
                self.viol("dimlink:raises_%s:%s" % (type(e).__name__, when), {"index": idx, "error": repr(e)[:200]})
        nvec = len(vectors) if len(vectors) <= 12 else 12
        for idx in vectors[:nvec]:
            for dim in [rd] + ([sd] if sd is not None else []):
                self.log.append("link %s of %s -> %s%s" % (type(dim).__name__, holder.name, tname, idx))
                dim.link_data_array(b.data_arrays[tname] if rng.random() < 0.5 else tgt, idx)
                check(dim, idx, "linked")
                # the target changes afterwards: data (through another handle), unit, label
                t2 = b.data_arrays[tname]
                k = rng.choice(["data", "unit", "label", "append"])
                if k == "data":
                    cur = np.array(t2[:])
                    cur[...] = cur + 1
                    t2[...] = cur
                elif k == "unit":
                    t2.unit = rng.choice(["s", "ms", "kHz", None])
                elif k == "label":
                    t2.label = rng.choice(["la", "lb", None])
                else:
                    ax = idx.index(-1)
                    sh = list(t2.shape)
                    sh[ax] = 1
                    t2.append(np.full(sh, 77).astype(t2.dtype), axis=ax)
                self.log.append("target %s changed" % k)
                check(dim, idx, "after_target_" + k)
                self.sigs.append(("dimlink", type(dim).__name__, len(idx), idx.index(-1), k))
        # explicit ticks replace the link and stop following
        idx = vectors[0]
        rd.link_data_array(tgt, idx)
        frozen = sorted(float(x) for x in expect_vec(idx))
        rd.ticks = frozen if rng.random() < 0.5 else [float(x) + 0.5 for x in frozen]
        want = tuple(rd.ticks)
        ctx.count("ticks_replace_link_checks")
        if rd.has_link or rd.dimension_link is not None:
            self.viol("dimlink:link_survives_explicit_ticks:%s" % ("same_values" if list(want) == frozen else "other_values"), {"ticks": list(want)[:6]})
        cur = np.array(tgt[:])
        tgt[...] = cur + 100
        fresh = holder.dimensions[0]
        if tuple(fresh.ticks) != want:
            self.viol("dimlink:explicit_ticks_follow_former_target", {"expected": list(want)[:6], "got": list(fresh.ticks)[:6]})
        rd.unit = "ms"
        rd.label = "own"
        if b.data_arrays[tname].unit == "ms" and tgt.label == "own":
            self.viol("dimlink:unlinked_dimension_writes_through_to_former_target", {})
        # ... and linking again replaces the ticks
        rd.link_data_array(tgt, idx)
        check(rd, idx, "relinked_after_ticks")
        if "ticks" in rd._h5group:
            self.viol("dimlink:stored_ticks_survive_link", {})
        # frame columns
        df = b.data_frames["same"]
        hd2 = b.create_data_array("holder2_" + tname, "arr", data=np.zeros(4))
        r2 = hd2.append_range_dimension()
        s2 = hd2.append_set_dimension()
        r2.link_data_frame(df, 0)
        s2.link_data_frame(df, 1)
        for when in ("linked", "after_write"):
            ctx.count("frame_link_checks")
            col0 = [float(x) for x in df.read_columns(index=[0])]
            col1 = [str(x) for x in df.read_columns(index=[1])]
            d0, d1 = hd2.dimensions[0], hd2.dimensions[1]
            if [float(x) for x in d0.ticks] != col0:
                self.viol("dimlink:frame_column_ticks_differ:%s" % when, {"got": list(d0.ticks), "expected": col0})
            if list(d1.labels) != col1:
                self.viol("dimlink:frame_column_labels_differ:%s" % when, {"got": list(d1.labels), "expected": col1})
            if d0.unit != df.units[0] or d0.label != df.column_names[0]:
                self.viol("dimlink:frame_column_unit_or_label_differ:%s" % when, {"got": [d0.unit, d0.label], "expected": [df.units[0], df.column_names[0]]})
            b.data_frames["same"].write_cell(col0[-1] + 10.0, position=[len(col0) - 1, 0])
            b.data_frames["same"].write_cell("changed", position=[0, 1])
            df.units = ["ms", None, "mV"]
        self.sigs.append(("dimlink", "frame_columns"))
        # a frame that carries no units at all: the linked dimension has the column's values and name, and no unit
        from collections import OrderedDict
        nu = b.create_data_frame("nounits_" + tname, "frame", col_dict=OrderedDict([("t", nix.DataType.Double), ("k", nix.DataType.Int64)]),
                                 data=[(0.5, 1), (1.5, 2), (2.5, 3), (3.5, 4)])
        r3 = hd2.append_range_dimension()
        r3.link_data_frame(nu, 0)
        try:
            d2 = hd2.dimensions[2]
            ctx.count("frame_link_checks")
            got = (d2.unit, d2.label, [float(x) for x in d2.ticks])
            if got != (None, "t", [0.5, 1.5, 2.5, 3.5]):
                self.viol("dimlink:unitless_frame_column_differs", {"got": list(got), "expected": [None, "t", [0.5, 1.5, 2.5, 3.5]]})
        except Exception as e:
            from ..core import raised_in_library
            if not raised_in_library(e):
                raise
            self.viol("dimlink:unitless_frame_column_raises_%s" % type(e).__name__, {"error": repr(e)[:200]})
        self.sigs.append(("dimlink", "unitless_frame_column"))

    # ---- membership ----------------------------------------------------------------------------------------
    def membership(self, f):
        nix, rng, ctx = self.nix, self.rng, self.ctx
        from .. import snapshot
        b, o = self.block(f, 0), self.block(f, 1)
        g = b.groups["g3"]
        g.data_arrays.append(b.data_arrays["a"])
        g.tags.append(b.tags["t2"])
        lists = [("group.data_arrays", g.data_arrays, "data_arrays", "DataArray"), ("group.data_frames", g.data_frames, "data_frames", "DataFrame"),
                 ("group.tags", g.tags, "tags", "Tag"), ("group.multi_tags", g.multi_tags, "multi_tags", "MultiTag"),
                 ("tag.references", b.tags["t2"].references, "data_arrays", "DataArray"), ("mtag.references", b.multi_tags["m2"].references, "data_arrays", "DataArray")]
        srclists = [("group.sources", g.sources), ("array.sources", b.data_arrays["b"].sources), ("tag.sources", b.tags["t2"].sources),
                    ("mtag.sources", b.multi_tags["m2"].sources)]
        pre = snapshot.snapshot(nix, f, with_data=False)
        for _ in range(rng.randint(12, 20)):
            if rng.random() < 0.7:
                lname, lc, cname, kind = rng.choice(lists)
                fault = rng.choice(["wrong_kind", "foreign_other_name", "foreign_same_name", "foreign_id_string", "extend_valid_then_foreign"])
                wrongs = {"DataArray": b.tags["same"], "DataFrame": b.data_arrays["a"], "Tag": b.multi_tags["same"], "MultiTag": b.tags["same"]}
                if fault == "wrong_kind":
                    item = rng.choice([wrongs[kind], b.sources["src"], b.groups["g2"], f.sections["meta"]])
                elif fault == "foreign_other_name":
                    x = getattr(o, cname).__class__ and None
                    uniq = {"data_arrays": "only_there", "data_frames": "only_there", "tags": "only_there", "multi_tags": "only_there"}[cname]
                    if uniq not in getattr(o, cname):
                        if cname == "data_arrays":
                            o.create_data_array(uniq, "arr", data=[1.0])
                        elif cname == "data_frames":
                            from collections import OrderedDict
                            o.create_data_frame(uniq, "frame", col_dict=OrderedDict([("c", int)]))
                        elif cname == "tags":
                            o.create_tag(uniq, "tag", [0.0])
                        else:
                            o.create_multi_tag(uniq, "mtag", o.data_arrays["vec"])
                        pre = snapshot.snapshot(nix, f, with_data=False)
                    item = getattr(o, cname)[uniq]
                else:
                    item = getattr(o, cname)["same"]
                before = ids(lc)
                self.log.append("%s <- %s" % (lname, fault))
                try:
                    if fault == "foreign_id_string":
                        lc.append(item.id)
                    elif fault == "extend_valid_then_foreign":
                        valid = [x for x in getattr(b, cname) if x.id not in before]
                        lc.extend(valid[:1] + [item])
                    else:
                        lc.append(item)
                    accepted = True
                except Exception:
                    accepted = False
                    ctx.count("membership_refusals")
                after = ids(lc)
                if accepted:
                    self.viol("membership:accepted:%s:%s" % (lname, fault), {"list": lname, "item": "%s '%s' of %s" % (type(item).__name__, getattr(item, "name", "?"), "other block" if fault != "wrong_kind" else "same block"),
                                                                              "list_after": after})
                    for i in after:
                        if i not in before:
                            try:
                                del lc[i]
                            except Exception:
                                pass
                elif after != before:
                    self.viol("membership:refused_but_list_changed:%s:%s" % (lname, fault), {"before": before, "after": after})
                    for i in after:
                        if i not in before:
                            try:
                                del lc[i]
                            except Exception:
                                pass
                self.sigs.append(("membership", lname, fault))
            else:
                lname, lc = rng.choice(srclists)
                fault = rng.choice(["foreign_tree_same_name", "foreign_tree_deep", "wrong_kind", "own_tree_deep_ok", "own_tree_top_ok"])
                if fault == "foreign_tree_same_name":
                    item = o.sources["same"]
                elif fault == "foreign_tree_deep":
                    item = o.sources["same"].sources["child"].sources["same"]
                elif fault == "wrong_kind":
                    item = rng.choice([b.data_arrays["a"], f.sections["same"], b.groups["g2"]])
                elif fault == "own_tree_deep_ok":
                    item = b.sources["src"].sources["same"].sources["same"]
                else:
                    item = b.sources["src"]
                before = ids(lc)
                self.log.append("%s <- %s" % (lname, fault))
                try:
                    lc.append(item)
                    accepted = True
                except Exception as e:
                    accepted = False
                    err = repr(e)[:200]
                after = ids(lc)
                if fault.endswith("_ok"):
                    ctx.count("membership_legal_appends")
                    exp = before + [item.id] if item.id not in before else None
                    if not accepted:
                        self.viol("membership:legal_source_refused:%s:%s" % (lname, fault), {"error": err})
                    elif exp is not None and after != exp:
                        self.viol("membership:legal_append_wrong_list:%s" % lname, {"before": before, "after": after})
                    elif exp is None and sorted(after) != sorted(before):
                        self.viol("membership:reappend_changed_membership:%s" % lname, {"before": before, "after": after})
                    if accepted:
                        h = lc[item.id]
                        if h.id != item.id or h.name != item.name:
                            self.viol("membership:appended_source_is_other_entity:%s" % lname, {})
                        pre = snapshot.snapshot(nix, f, with_data=False)
                else:
                    ctx.count("membership_refusals" if not accepted else "membership_accepted_faults")
                    if accepted:
                        self.viol("membership:accepted:%s:%s" % (lname, fault), {"list_after": after})
                        try:
                            del lc[item.id]
                        except Exception:
                            pass
                    elif after != before:
                        self.viol("membership:refused_but_list_changed:%s:%s" % (lname, fault), {"before": before, "after": after})
                self.sigs.append(("membership", lname, fault))
        # feature data: same-block rule
        ft = b.tags["t2"].create_feature(b.data_arrays["a"], nix.LinkType.Untagged)
        pre = snapshot.snapshot(nix, f, with_data=False)
        for item, fault in ((o.data_arrays["same"], "foreign_same_name"), (o.data_arrays["vec"], "foreign_same_name"), (o.data_frames["same"], "foreign_same_name")):
            try:
                ft.data = item
                self.viol("membership:accepted:feature.data:%s" % fault, {"item": type(item).__name__})
                ft.data = b.data_arrays["a"]
            except Exception:
                ctx.count("membership_refusals")
            if ft.data.id != b.data_arrays["a"].id:
                self.viol("membership:refused_but_changed:feature.data", {})
        post = snapshot.snapshot(nix, f, with_data=False)
        d = snapshot.diff(pre, post)
        for x in d[:3]:
            self.viol("membership:refusals_changed_file:%s.%s" % (x["entity"].split(":")[0], x.get("field") or x.get("change")), {"diff": x})

    # ---- driver ---------------------------------------------------------------------------------------------
    def relink_after_copy(self, st):
        """A tag / group copied into another block brings private duplicates of what it linked (same ids).  Appending the
        destination block's own entity of that id (its kept-id copy of the array) must make the list entry an ALIAS of that
        entity; likewise a fixed-name link (metadata) re-pointed to a same-id copy of its old target."""
        nix, np, rng, ctx = self.nix, self.np, self.rng, self.ctx
        f = st["f"]
        A, B = f.create_block("cpA", "t"), f.create_block("cpB", "t")
        sig = A.create_data_array("sig", "t", data=np.arange(5.0), label="orig")
        holder_kind = rng.choice(["tag", "multi_tag", "group"])
        if holder_kind == "tag":
            h = A.create_tag("holder", "t", [0.0])
            h.references.append(sig)
            hB = B.create_tag(copy_from=h)
            lst = lambda x: x.references      # noqa
        elif holder_kind == "multi_tag":
            pos = A.create_data_array("pos", "t", data=np.zeros((2, 1)))
            h = A.create_multi_tag("holder", "t", pos)
            h.references.append(sig)
            hB = B.create_multi_tag(copy_from=h)
            lst = lambda x: x.references      # noqa
        else:
            h = A.create_group("holder", "t")
            h.data_arrays.append(sig)
            hB = None
            lst = lambda x: x.data_arrays      # noqa
        sigB = B.create_data_array(copy_from=sig)
        if hB is None:
            hB = B.create_group("holder", "t")          # groups cannot be copied through the API: link the copy's array twice instead
            lst(hB).append(sigB)
        lst(hB).append(sigB)
        sec = f.create_section("cp_meta", "t")
        sec2 = f.copy_section(sec, name="cp_meta_copy")
        sigB.metadata = sec
        sigB.metadata = sec2
        info = dict(self.rep, part="relink_after_copy", holder=holder_kind)
        ctx.count("relink_after_copy_cases")

        def check(when, ff):
            Bb = ff.blocks["cpB"]
            hb = {"tag": Bb.tags, "multi_tag": Bb.multi_tags, "group": Bb.groups}[holder_kind]["holder"]
            via_list = [x for x in lst(hb) if x.name == "sig"]
            own = Bb.data_arrays["sig"]
            if len(via_list) != 1:
                self.viol("relink_after_copy:list_has_%d_entries_for_one_id:%s" % (len(via_list), holder_kind), dict(info, when=when))
                return
            got = (via_list[0].label, [float(x) for x in via_list[0][:]])
            want = (own.label, [float(x) for x in own[:]])
            ctx.count("relink_after_copy_reads")
            if got != want:
                self.viol("relink_after_copy:list_entry_is_not_an_alias:%s:%s" % (holder_kind, when), dict(info, through_block=want, through_list=got))
            md = own.metadata
            if md is None or md.name != "cp_meta_copy":
                self.viol("relink_after_copy:metadata_not_repointed:%s" % when, dict(info, got=None if md is None else md.name))
        check("after_append", f)
        B.data_arrays["sig"].label = "changed through the block"
        B.data_arrays["sig"][0] = 77.0
        check("after_mutation_through_block", f)
        hb = {"tag": B.tags, "multi_tag": B.multi_tags, "group": B.groups}[holder_kind]["holder"]
        ent = [x for x in lst(hb) if x.name == "sig"][0]
        ent.label = "changed through the list"
        ent[1] = 88.0
        check("after_mutation_through_list", f)
        f.close()
        st["f"] = nix.File.open(self.path, nix.FileMode.ReadOnly)
        check("after_reopen", st["f"])
        st["f"].close()
        st["f"] = nix.File.open(self.path, nix.FileMode.ReadWrite)

    # ---- role links re-pointed while older handles of the HOLDER are alive -----------------------------------
    def repoint_roles(self, f):
        """positions / extents of a multi-tag, data of a feature, metadata of any entity, link of a section: two long-lived
        handles of the holder that have both read the role; the role is re-pointed (or cleared) through one of them and
        read through the other, through the first and through a fresh one - all must yield the new target itself."""
        nix, rng, ctx = self.nix, self.rng, self.ctx
        b = self.block(f)
        secs = [f.sections["meta"], f.sections["same"], f.sections["meta"].sections["child"]]
        arrs = [b.data_arrays[n] for n in ("same", "vec", "ints", "a")]
        mtn = rng.choice(["same", "m2"])
        cases = [("MultiTag.positions", lambda: b.multi_tags[mtn], "positions", arrs[:3], False),
                 ("MultiTag.extents", lambda: b.multi_tags["m2"], "extents", arrs[:3], True),
                 ("DataArray.metadata", lambda: b.data_arrays["b"], "metadata", secs, True),
                 ("Tag.metadata", lambda: b.tags["t2"], "metadata", secs, True),
                 ("Block.metadata", lambda: self.block(f), "metadata", secs, True),
                 ("Section.link", lambda: f.sections["same"].sections["child"], "link", secs[:2], True)]
        try:
            if not len(b.tags["same"].features):
                b.tags["same"].create_feature(arrs[0], nix.LinkType.Untagged)
            # (a data frame is accepted only by a feature whose link type is Untagged)
            frames = [b.data_frames["same"]] if b.tags["same"].features[0].link_type == nix.LinkType.Untagged else []
            cases.append(("Feature.data", lambda: b.tags["same"].features[0], "data", arrs + frames, False))
        except Exception:
            ctx.count("repoint:feature_not_available")
        for label, get, attr, targets, clearable in rng.sample(cases, rng.randint(2, len(cases))):
            try:
                h = [get(), get()]
                for x in h:
                    getattr(x, attr)             # both handles have read the role before it changes
            except Exception as e:
                from ..core import raised_in_library
                if not raised_in_library(e):
                    raise
                self.viol("repoint:%s:read_raises_%s" % (label, type(e).__name__), {"error": repr(e)[:200]})
                continue
            for step in range(rng.randint(2, 4)):
                w = rng.randrange(2)
                tgt = None if (clearable and step and rng.random() < 0.3) else rng.choice(targets)
                self.log.append("%s := %s via handle %d" % (label, getattr(tgt, "name", None), w))
                try:
                    if tgt is None and getattr(get(), attr) is None:
                        continue                    # nothing to clear
                    if tgt is None and attr == "metadata":
                        delattr(h[w], attr)         # the documented way to clear a metadata link
                    else:
                        setattr(h[w], attr, tgt)
                except Exception as e:
                    from ..core import raised_in_library
                    if not raised_in_library(e):
                        raise
                    self.viol("repoint:%s:assignment_raises_%s" % (label, type(e).__name__), {"target": getattr(tgt, "name", None), "error": repr(e)[:200]})
                    break
                ctx.count("roles_repointed")
                for who, rh in (("writing_handle", h[w]), ("other_handle", h[1 - w]), ("fresh_handle", None)):
                    try:
                        got = getattr(rh if rh is not None else get(), attr)
                    except Exception as e:
                        self.viol("repoint:%s:read_raises_%s:%s" % (label, type(e).__name__, who), {"error": repr(e)[:200]})
                        continue
                    ctx.count("repointed_role_reads")
                    want = None if tgt is None else tgt.id
                    have = None if got is None else got.id
                    if want != have:
                        self.viol("repoint:%s:%s_yields_%s" % (label, who, "another_entity" if have and want else ("cleared_target" if have else "nothing")),
                                  {"expected": want, "got": have, "got_name": getattr(got, "name", None)})
                    elif got is not None and getattr(got, "name", None) != tgt.name:
                        self.viol("repoint:%s:%s_has_other_content" % (label, who), {"expected_name": tgt.name, "got_name": got.name})
                self.sigs.append(("repoint", label, "clear" if tgt is None else "set", w))

    def run(self):
        nix, rng = self.nix, self.rng
        from .. import clock
        clock.install()
        st = {"f": nix.File.open(self.path, nix.FileMode.Overwrite)}
        try:
            self.build(st["f"])
            kind = rng.choice(["DataArray", "DataArray", "DataFrame", "Tag", "MultiTag", "Source", "Section"])
            self.kind = kind
            tid, P = self.wire(st["f"], kind)
            self.roles = sorted(r.split("[")[0] for r in P)
            self.log.append("target %s linked through %d paths" % (kind, len(P)))
            self.check_alias(st["f"], tid, P, "linked")
            self.propagate(st, tid, P, kind)
            part = rng.choice(["dimension", "membership", "both"])
            if part in ("dimension", "both"):
                self.dimension_links(st["f"])
            if part in ("membership", "both"):
                self.membership(st["f"])
            if rng.random() < 0.5:
                self.repoint_roles(st["f"])
            if rng.random() < 0.35:
                self.relink_after_copy(st)
        finally:
            try:
                st["f"].close()
            except Exception:
                pass


def run_shard(spec, ctx):
    import numpy as np
    from .. import env
    nix = env.import_nixio()
    path = env.scratch_file("c05_%d.nix" % ctx.shard)
    for k in range(spec["cases"]):
        rep = {"case": k, "shard": ctx.shard}
        c = Case(ctx, nix, np, path, ctx.rng("c05", k), rep)
        ctx.guarded("case", c.run)
        for s in c.sigs:
            ctx.case(s)
        if c.sigs and len(ctx.samples) < 4:
            ctx.samples.append({"target_kind": getattr(c, "kind", None), "paths": getattr(c, "roles", None), "steps": c.log[:14]})
        if not c.sigs:
            ctx.case(None)


def replay(w, ctx):
    import numpy as np
    from .. import env
    nix = env.import_nixio()
    ctx.shard = w.get("shard", 0)
    ctx.case(("replay",))
    Case(ctx, nix, np, env.scratch_file("c05_replay.nix"), ctx.rng("c05", w["case"]), w).run()
