"""C12 - a refused operation leaves the file exactly as it was.

A fault catalogue - every public creating / mutating call x every class of invalid argument of the statement
that the call can receive - is injected into content-bearing files in varying states (fixture with every
entity kind + random valid history).  Around every injected call the monitor takes the canonical snapshot of
the WHOLE file (every public readable property of every entity, data digests, ordered containers, links) and a
raw HDF5 scan.  If the call raises:   snapshot_after == snapshot_before   and   raw content unchanged   and
the same call with a valid argument (same name) then succeeds.  A call that is accepted is not a C12 event
(counted; A11).  An optional third observation: low-level write probes tell whether the refusal happened
before or after the first write to the file.
"""
ID = "C12"
LEVEL = "fault_enumeration"
TECHNIQUE = ("fault injection over a catalogue of (public call, invalid-argument class) pairs at random points of valid histories; "
             "whole-file canonical snapshot + raw HDF5 scan before vs after every refused call; retry with a valid argument; "
             "low-level write probes classify refusals as clean (no write attempted) or rolled back")
RULE = ("Case = one (call site, fault class) pair of the catalogue injected into one prior state (fixture + 0-40 random valid "
        "operations; each shard builds its own states).  Judged when the call raises: snapshot and raw scan before == after, then "
        "the valid retry must succeed.  Fault classes include text HDF5 cannot store (embedded NUL, lone surrogate) as name, type, definition, label, unit, "
        "unit / label list, property value, text element and frame cell.  Distinct by (call site, fault class, outcome in {refused_clean, refused_after_write, "
        "accepted, not_applicable}); trivial = pairs that were not applicable to the state.")
ASSUMPTIONS = ["a call that is accepted is outside C12 (A11): it is counted, the file state is re-read, and the next injection starts from the new state",
               "raw HDF5 comparison ignores empty attribute-less container groups (no API call can see them)",
               "the raw scan goes through the library's own h5py handle (File._h5file) while the file is open",
               "exception classes are not judged, only that the call raises"]

NSHARDS = 16


def plan(tier, seed):
    return [{"i": i, "states": 2 if tier == "quick" else 14, "extra": 40} for i in range(NSHARDS)]


def catalogue(nix, np):
    """[(site, fault class, fn(T), retry(T) or None)]"""
    from collections import OrderedDict
    LT = nix.LinkType
    C = []

    def add(site, fault, fn, retry=None, setup=None):
        """setup(T): valid preparatory calls, executed BEFORE the 'before' snapshot is taken"""
        C.append((site, fault, fn, retry, setup))
    OBJ = np.array([{"a": 1}, None], dtype=object)
    # ---- names and types of every creating call ------------------------------------------------------------
    creators = [
        ("File.create_block", lambda T, n, t: T["f"].create_block(n, t), "blk0"),
        ("File.create_section", lambda T, n, t: T["f"].create_section(n, t), "sec0"),
        ("Block.create_data_array", lambda T, n, t: T["b"].create_data_array(n, t, data=[1.0, 2.0]), "da_num"),
        ("Block.create_data_frame", lambda T, n, t: T["b"].create_data_frame(n, t, col_dict=OrderedDict([("a", int)])), "df"),
        ("Block.create_tag", lambda T, n, t: T["b"].create_tag(n, t, [1.0]), "tag"),
        ("Block.create_multi_tag", lambda T, n, t: T["b"].create_multi_tag(n, t, T["pos"]), "mtag"),
        ("Block.create_multi_tag(raw)", lambda T, n, t: T["b"].create_multi_tag(n, t, np.array([1.0, 2.0]), np.array([0.5, 0.5])), "mtag"),
        ("Block.create_group", lambda T, n, t: T["b"].create_group(n, t), "grp"),
        ("Block.create_source", lambda T, n, t: T["b"].create_source(n, t), "src"),
        ("Source.create_source", lambda T, n, t: T["src"].create_source(n, t), "nested"),
        ("Section.create_section", lambda T, n, t: T["sec"].create_section(n, t), "sub"),
    ]
    for k, (site, mk, existing) in enumerate(creators):
        add(site, "duplicate_name", lambda T, mk=mk, e=existing: mk(T, e, "t"))
        add(site, "invalid_name_slash", lambda T, mk=mk, k=k: mk(T, "a/b%d" % k, "t"), lambda T, mk=mk, k=k: mk(T, "a_b%d" % k, "t"))
        add(site, "empty_name", lambda T, mk=mk: mk(T, "", "t"), lambda T, mk=mk, k=k: mk(T, "nonempty%d" % k, "t"))
        add(site, "empty_type", lambda T, mk=mk, k=k: mk(T, "fresh_name%d" % k, ""), lambda T, mk=mk, k=k: mk(T, "fresh_name%d" % k, "t"))
        add(site, "type_none", lambda T, mk=mk, k=k: mk(T, "fresh_name2_%d" % k, None), lambda T, mk=mk, k=k: mk(T, "fresh_name2_%d" % k, "t"))
        add(site, "name_not_a_string", lambda T, mk=mk: mk(T, 5, "t"))
    # ---- text that HDF5 cannot store (an embedded NUL character, a lone surrogate that has no UTF-8 encoding): refused, and nothing changes
    for tk, bad_text in (("nul", "a\x00b"), ("surrogate", "x\ud800")):
        for k, (site, mk, existing) in enumerate(creators):
            add(site, "type_unstorable_text_" + tk, lambda T, mk=mk, k=k, v=bad_text, tk=tk: mk(T, "ut_%s_%d" % (tk, k), v),
                lambda T, mk=mk, k=k, tk=tk: mk(T, "ut_%s_%d" % (tk, k), "t"))
            add(site, "name_unstorable_text_" + tk, lambda T, mk=mk, k=k, v=bad_text: mk(T, "un%d_%s" % (k, v), "t"))
        for key in ("b", "da", "df", "tag", "mtag", "grp", "src", "sec"):
            add("%s.type" % key, "unstorable_text_" + tk, lambda T, key=key, v=bad_text: setattr(T[key], "type", v))
            add("%s.definition" % key, "unstorable_text_" + tk, lambda T, key=key, v=bad_text: setattr(T[key], "definition", v))
        add("DataArray.label", "unstorable_text_" + tk, lambda T, v=bad_text: setattr(T["da"], "label", v))
        add("DataArray.unit", "unstorable_text_" + tk, lambda T, v=bad_text: setattr(T["da"], "unit", v))
        add("Tag.units", "unstorable_text_later_" + tk, lambda T, v=bad_text: setattr(T["tag"], "units", ["s", v]))
        add("MultiTag.units", "unstorable_text_later_" + tk, lambda T, v=bad_text: setattr(T["mtag"], "units", ["s", v]))
        add("DataFrame.units", "unstorable_text_" + tk, lambda T, v=bad_text: setattr(T["df"], "units", [v] + [None] * (len(T["df"].column_names) - 1)))
        add("SetDimension.labels", "unstorable_text_later_" + tk, lambda T, v=bad_text: setattr(T["ds"].dimensions[0], "labels", ["k", v]))
        add("DataArray.append_set_dimension", "labels_unstorable_text_" + tk, lambda T, v=bad_text: T["d1"].append_set_dimension(["k", v]))
        add("DataArray.append_sampled_dimension", "unit_unstorable_text_" + tk, lambda T, v=bad_text: T["d1"].append_sampled_dimension(1.0, unit=v))
        add("DataArray.append_range_dimension", "label_unstorable_text_" + tk, lambda T, v=bad_text: T["d1"].append_range_dimension([1.0, 2.0], label=v))
        add("Property.values", "unstorable_text_later_" + tk, lambda T, v=bad_text: setattr(T["p_text"], "values", ["q", v]))
        add("Property.extend_values", "unstorable_text_" + tk, lambda T, v=bad_text: T["p_text"].extend_values([v]))
        add("Property.unit", "unstorable_text_" + tk, lambda T, v=bad_text: setattr(T["p_float"], "unit", v))
        # (the attributes of a property live on a dataset, not on a group: with a value already in place)
        add("Property.unit", "unstorable_text_over_existing_" + tk, lambda T, v=bad_text: setattr(T["p_float"], "unit", v),
            setup=lambda T: setattr(T["p_float"], "unit", "kHz"))
        for attr in ("definition", "reference", "dependency", "dependency_value", "value_origin"):
            add("Property." + attr, "unstorable_text_over_existing_" + tk, lambda T, v=bad_text, attr=attr: setattr(T["p_text"], attr, v),
                setup=lambda T, attr=attr: setattr(T["p_text"], attr, "kept"))
        add("Section.create_property", "values_unstorable_text_" + tk, lambda T, v=bad_text, tk=tk: T["sec"].create_property("utp_" + tk, ["q", v]),
            lambda T, tk=tk: T["sec"].create_property("utp_" + tk, ["q"]))
        add("DataArray.append", "unstorable_text_" + tk, lambda T, v=bad_text: T["dtext"].append(np.array([v], dtype=object)))
        add("DataArray.__setitem__", "unstorable_text_" + tk, lambda T, v=bad_text: T["dtext"].__setitem__(0, v))
        add("Block.create_data_array", "text_data_unstorable_" + tk,
            lambda T, v=bad_text, tk=tk: T["b"].create_data_array("utda_" + tk, "t", dtype=nix.DataType.String, data=np.array(["a", v], dtype=object)),
            lambda T, tk=tk: T["b"].create_data_array("utda_" + tk, "t", data=[1.0]))
        add("DataFrame.append_rows", "unstorable_text_cell_" + tk, lambda T, v=bad_text: T["df"].append_rows([tuple(v if isinstance(c, str) else c for c in tuple(T["df"][0]))]))
    add("Section.create_property", "duplicate_name", lambda T: T["sec"].create_property("ints", [1]))
    add("Section.create_property", "invalid_name_slash", lambda T: T["sec"].create_property("a/b", [1]), lambda T: T["sec"].create_property("a_b", [1]))
    add("Section.create_property", "empty_name", lambda T: T["sec"].create_property("", [1]))
    add("Section.create_property", "mixed_types", lambda T: T["sec"].create_property("mixed", [1, "a"]), lambda T: T["sec"].create_property("mixed", [1, 2]))
    add("Section.create_property", "mixed_types_late", lambda T: T["sec"].create_property("mixed2", [1.5, 2.5, 3.5, True]), lambda T: T["sec"].create_property("mixed2", [1.5]))
    add("Section.create_property", "unsupported_value_type", lambda T: T["sec"].create_property("cplx", [1 + 2j]), lambda T: T["sec"].create_property("cplx", [1.0]))
    add("Section.create_property", "empty_values", lambda T: T["sec"].create_property("novals", []), lambda T: T["sec"].create_property("novals", nix.DataType.Int64))
    add("Section.create_property", "none_value", lambda T: T["sec"].create_property("nonev", None), lambda T: T["sec"].create_property("nonev", [1]))
    add("Section.create_property", "bool_after_ints", lambda T: T["sec"].create_property("mixed3", [1, 2, True]), lambda T: T["sec"].create_property("mixed3", [1, 2]))
    add("Section.create_property", "int_after_bools", lambda T: T["sec"].create_property("mixed4", [True, False, 1]), lambda T: T["sec"].create_property("mixed4", [True]))
    add("Section.create_property", "float_after_ints", lambda T: T["sec"].create_property("mixed5", [1, 2, 2.5]), lambda T: T["sec"].create_property("mixed5", [1]))
    add("Section.create_property", "text_after_floats", lambda T: T["sec"].create_property("mixed6", (0.5, 1.5, "x")), lambda T: T["sec"].create_property("mixed6", [0.5]))
    add("Section.__setitem__", "bool_after_ints_new", lambda T: T["sec"].__setitem__("dmix2", [1, 2, True]), lambda T: T["sec"].__setitem__("dmix2", [1]))
    add("Property.extend_values", "bool_to_ints", lambda T: T["p_int"].extend_values([True]))
    add("Property.extend_values", "int_to_floats", lambda T: T["p_float"].extend_values([1]))
    add("Section.create_property", "float32_array_values", lambda T: T["sec"].create_property("f32vals", np.array([1.5, 2.5], dtype=np.float32)), lambda T: T["sec"].create_property("f32vals", [1.5]))
    add("Section.create_property", "int_beyond_64_bit", lambda T: T["sec"].create_property("bigint", [1, 2 ** 70]), lambda T: T["sec"].create_property("bigint", [1]))
    add("Property.values", "int_beyond_64_bit", lambda T: setattr(T["p_int"], "values", [2 ** 70]))
    add("Property.values", "int_beyond_64_bit_later", lambda T: setattr(T["p_int"], "values", [1, 2, 3, 4, 2 ** 70]))
    add("Property.extend_values", "int_beyond_64_bit", lambda T: T["p_int"].extend_values([2 ** 70]))
    add("Section.__setitem__", "mixed_types_new", lambda T: T["sec"].__setitem__("dmix", [1, "a"]), lambda T: T["sec"].__setitem__("dmix", [1]))
    add("Section.__setitem__", "wrong_type_existing", lambda T: T["sec"].__setitem__("ints", ["a"]))
    # ---- data arrays ---------------------------------------------------------------------------------------
    def da_fault(fault, **kw):
        nm = "newda_" + fault
        add("Block.create_data_array", fault, lambda T: T["b"].create_data_array(nm, "t", **kw), lambda T: T["b"].create_data_array(nm, "t", data=[1.0]))
    da_fault("unsupported_dtype_object", data=OBJ)
    da_fault("unsupported_dtype_string", dtype="nonsense", shape=(2,))
    da_fault("unsupported_dtype_complex", data=np.array([1 + 2j]))
    da_fault("fixed_width_text_without_String", data=np.array(["ab", "cd"]))
    da_fault("shape_mismatch", data=np.arange(3.0), shape=(2,))
    da_fault("shape_rank_mismatch", data=np.arange(4.0), shape=(2, 2))
    da_fault("no_data_no_shape")
    da_fault("unit_not_a_string", data=[1.0], unit=5)
    da_fault("label_not_a_string", data=[1.0], label=5)
    da_fault("data_not_convertible", dtype=np.float64, data=["a", "b"])
    da_fault("compression_not_a_compression", data=[1.0], compression="gzip")
    add("DataArray.append", "wrong_rank", lambda T: T["da"].append(np.ones(4)))
    add("DataArray.append", "shape_mismatch_other_axis", lambda T: T["da"].append(np.ones((1, 3)), axis=0))
    add("DataArray.append", "unconvertible_values", lambda T: T["d1"].append(np.array(["a", "b"])), lambda T: T["d1"].append(np.array([1.0])))
    add("DataArray.append", "object_values", lambda T: T["d1"].append(OBJ))
    add("DataArray.__setitem__", "index_out_of_range", lambda T: T["da"].__setitem__((10, 10), 1.0))
    add("DataArray.__setitem__", "shape_mismatch", lambda T: T["da"].__setitem__((slice(0, 2), slice(0, 2)), np.ones((3, 3))))
    add("DataArray.__setitem__", "unconvertible_values", lambda T: T["da"].__setitem__(0, "text"))
    add("DataArray.write_direct", "shape_mismatch", lambda T: T["da"].write_direct(np.ones((2, 2))))
    add("DataArray.data_extent", "wrong_rank", lambda T: setattr(T["da"], "data_extent", (2,)))
    add("DataArray.label", "not_a_string", lambda T: setattr(T["da"], "label", 5))
    add("DataArray.unit", "not_a_string", lambda T: setattr(T["da"], "unit", 5))
    add("DataArray.expansion_origin", "not_a_number", lambda T: setattr(T["da"], "expansion_origin", "a"))
    add("DataArray.polynom_coefficients", "not_numbers", lambda T: setattr(T["d1"], "polynom_coefficients", ["a"]), lambda T: setattr(T["d1"], "polynom_coefficients", [1.0]))
    add("DataArray.polynom_coefficients", "not_numbers_existing", lambda T: setattr(T["dcal"], "polynom_coefficients", ["a", "b"]))
    add("DataArray.metadata", "wrong_kind", lambda T: setattr(T["da"], "metadata", T["d1"]))
    add("DataArray.metadata", "not_an_entity", lambda T: setattr(T["da"], "metadata", "sec0"))
    add("DataArray.sources.append", "foreign_block", lambda T: T["da"].sources.append(T["other"].sources["src"]))
    add("DataArray.sources.append", "wrong_kind", lambda T: T["da"].sources.append(T["d1"]))
    add("DataArray.sources.extend", "valid_then_foreign", lambda T: T["da"].sources.extend([T["src2"], T["other"].sources["src"]]), lambda T: T["da"].sources.extend([T["src2"]]))
    add("DataArray.sources.__delitem__", "index_out_of_range", lambda T: T["da"].sources.__delitem__(99))
    add("DataArray.sources.__delitem__", "unknown_name", lambda T: T["da"].sources.__delitem__("nope"))
    # ---- dimensions -------------------------------------------------------------------------------------
    add("DataArray.append_range_dimension", "unordered_ticks", lambda T: T["d1"].append_range_dimension([3.0, 1.0, 2.0]), lambda T: T["d1"].append_range_dimension([1.0, 2.0]))
    add("DataArray.append_range_dimension", "ticks_not_numbers", lambda T: T["d1"].append_range_dimension(["a", "b"]))
    add("DataArray.append_range_dimension", "unit_not_a_string", lambda T: T["d1"].append_range_dimension([1.0, 2.0], unit=5))
    add("DataArray.append_range_dimension", "label_not_a_string", lambda T: T["d1"].append_range_dimension([1.0, 2.0], label=5))
    add("DataArray.append_set_dimension", "labels_not_strings", lambda T: T["d1"].append_set_dimension([1, 2]), lambda T: T["d1"].append_set_dimension(["a"]))
    add("DataArray.append_set_dimension", "labels_not_a_list", lambda T: T["d1"].append_set_dimension(5))
    add("DataArray.append_sampled_dimension", "interval_not_a_number", lambda T: T["d1"].append_sampled_dimension("a"), lambda T: T["d1"].append_sampled_dimension(1.0))
    add("DataArray.append_sampled_dimension", "unit_not_a_string", lambda T: T["d1"].append_sampled_dimension(1.0, unit=5))
    add("DataArray.append_sampled_dimension", "label_not_a_string", lambda T: T["d1"].append_sampled_dimension(1.0, label=5))
    add("DataArray.append_sampled_dimension", "offset_not_a_number", lambda T: T["d1"].append_sampled_dimension(1.0, offset="a"))
    add("DataArray.append_range_dimension_using_self", "rank_2_array", lambda T: T["da"].append_range_dimension_using_self())
    add("DataArray.append_range_dimension_using_self", "bad_index", lambda T: T["da"].append_range_dimension_using_self([0, 0]))
    rdim = lambda T: T["da"].dimensions[1]      # noqa  range dimension with ticks
    add("RangeDimension.ticks", "unordered", lambda T: setattr(rdim(T), "ticks", [3.0, 1.0]), lambda T: setattr(rdim(T), "ticks", [1.0, 3.0, 4.0, 5.0]))
    add("RangeDimension.ticks", "not_numbers", lambda T: setattr(rdim(T), "ticks", ["a"]))
    add("RangeDimension.unit", "not_a_string", lambda T: setattr(rdim(T), "unit", 5))
    add("RangeDimension.label", "not_a_string", lambda T: setattr(rdim(T), "label", 5))
    add("RangeDimension.link_data_array", "index_wrong_length", lambda T: rdim(T).link_data_array(T["d1"], [0, -1]))
    add("RangeDimension.link_data_array", "index_without_minus_one", lambda T: rdim(T).link_data_array(T["d1"], [0]))
    add("RangeDimension.link_data_array", "index_two_minus_ones", lambda T: rdim(T).link_data_array(T["ds"], [-1, -1]))
    add("RangeDimension.link_data_array", "index_negative", lambda T: rdim(T).link_data_array(T["ds"], [-1, -2]))
    add("RangeDimension.link_data_array", "not_an_array", lambda T: rdim(T).link_data_array(T["tag"], [-1]))
    add("RangeDimension.link_data_frame", "column_out_of_range", lambda T: rdim(T).link_data_frame(T["df"], 7))
    add("RangeDimension.link_data_frame", "column_negative", lambda T: rdim(T).link_data_frame(T["df"], -1))
    add("RangeDimension(linked).link_data_array", "index_wrong_length", lambda T: T["dl"].dimensions[0].link_data_array(T["d1"], [0, -1]))
    add("RangeDimension(linked).link_data_frame", "column_out_of_range", lambda T: T["dl"].dimensions[0].link_data_frame(T["df"], 9))
    add("RangeDimension(linked).ticks", "unordered", lambda T: setattr(T["dl"].dimensions[0], "ticks", [3.0, 1.0, 2.0, 0.5]))
    add("RangeDimension(linked).ticks", "not_numbers", lambda T: setattr(T["dl"].dimensions[0], "ticks", ["a", "b"]))
    add("RangeDimension(using_self).ticks", "unordered", lambda T: setattr(T["d1"].dimensions[0], "ticks", [3.0, 1.0]))
    add("RangeDimension(linked).link_data_array", "not_an_array", lambda T: T["dl"].dimensions[0].link_data_array(T["grp"], [-1]))
    add("SetDimension(linked).link_data_frame", "column_out_of_range", lambda T: T["ddf"].dimensions[0].link_data_frame(T["df"], 11))
    add("SetDimension(linked).link_data_array", "index_without_minus_one", lambda T: T["ddf"].dimensions[0].link_data_array(T["d1"], [0]))
    add("RangeDimension.link_data_frame", "column_not_an_int", lambda T: rdim(T).link_data_frame(T["df"], 1.0))
    add("RangeDimension.link_data_frame", "column_is_text", lambda T: rdim(T).link_data_frame(T["df"], "v"))
    add("SetDimension.link_data_frame", "column_not_an_int", lambda T: T["ds"].dimensions[1].link_data_frame(T["df"], 1.0))
    add("RangeDimension.link_data_array", "index_of_floats", lambda T: rdim(T).link_data_array(T["ds"], [0.5, -1]))
    add("RangeDimension.link_data_array", "index_not_a_sequence", lambda T: rdim(T).link_data_array(T["d1"], -1))
    add("RangeDimension(linked).link_data_frame", "column_not_an_int", lambda T: T["dl"].dimensions[0].link_data_frame(T["df"], 2.0))
    add("RangeDimension.remove_link", "no_link", lambda T: rdim(T).remove_link())
    add("SetDimension.labels", "not_strings", lambda T: setattr(T["ds"].dimensions[0], "labels", [1, 2]))
    add("SetDimension.labels", "not_a_list", lambda T: setattr(T["ds"].dimensions[0], "labels", "ab"))
    add("SetDimension.labels", "linked_dimension", lambda T: setattr(T["ddf"].dimensions[0], "labels", ["a"]))
    add("SetDimension.link_data_array", "index_wrong_length", lambda T: T["ds"].dimensions[1].link_data_array(T["d1"], [0, -1]))
    add("SetDimension.link_data_frame", "column_out_of_range", lambda T: T["ds"].dimensions[1].link_data_frame(T["df"], 3))
    add("SampledDimension.sampling_interval", "not_a_number", lambda T: setattr(T["da"].dimensions[0], "sampling_interval", "a"))
    add("SampledDimension.offset", "not_a_number", lambda T: setattr(T["da"].dimensions[0], "offset", "a"))
    add("SampledDimension.unit", "not_a_string", lambda T: setattr(T["da"].dimensions[0], "unit", 5))
    add("DimensionLink.index", "two_minus_ones", lambda T: setattr(T["dl"].dimensions[0].dimension_link, "index", [-1, -1]))
    add("DimensionLink.index", "not_a_sequence", lambda T: setattr(T["dl"].dimensions[0].dimension_link, "index", 3))
    # ---- tags, multi-tags, features -------------------------------------------------------------------------
    add("Block.create_tag", "position_not_numbers", lambda T: T["b"].create_tag("badpos", "t", ["a", "b"]), lambda T: T["b"].create_tag("badpos", "t", [1.0]))
    add("Block.create_tag", "position_none", lambda T: T["b"].create_tag("nopos", "t", None))
    add("Tag.position", "not_numbers", lambda T: setattr(T["tag"], "position", ["a"]))
    add("Tag.extent", "not_numbers", lambda T: setattr(T["tag"], "extent", ["a"]))
    add("Tag.units", "not_strings", lambda T: setattr(T["tag"], "units", ["ms", 5]))
    add("MultiTag.units", "not_strings", lambda T: setattr(T["mtag"], "units", [5]))
    add("Tag.references.append", "foreign_block_same_name", lambda T: T["tag"].references.append(T["other"].data_arrays["da_1d"]))
    add("Tag.references.append", "wrong_kind", lambda T: T["tag"].references.append(T["tag2"]))
    add("Tag.references.append", "not_an_entity", lambda T: T["tag"].references.append(5))
    add("Tag.references.extend", "valid_then_wrong_kind", lambda T: T["tag"].references.extend([T["d1"], T["grp"]]), lambda T: T["tag"].references.extend([T["d1"]]))
    add("Tag.references.__delitem__", "index_out_of_range", lambda T: T["tag"].references.__delitem__(99))
    add("Tag.references.__delitem__", "not_a_member", lambda T: T["tag"].references.__delitem__(T["dempty"]))
    add("MultiTag.references.append", "foreign_block", lambda T: T["mtag"].references.append(T["other"].data_arrays["da_set"]))
    add("MultiTag.positions", "not_an_entity", lambda T: setattr(T["mtag"], "positions", 5))
    add("MultiTag.extents", "not_an_entity", lambda T: setattr(T["mtag"], "extents", 5))
    add("MultiTag.extents", "not_an_entity_text", lambda T: setattr(T["mtag"], "extents", "extents"))
    add("MultiTag.positions", "none", lambda T: setattr(T["mtag"], "positions", None))
    add("Block.create_multi_tag", "positions_none", lambda T: T["b"].create_multi_tag("mtnone", "t", None))
    add("Block.create_multi_tag(raw)", "positions_array_name_taken", lambda T: T["b"].create_multi_tag("taken", "t", np.array([1.0])),
        setup=lambda T: "taken-positions" in T["b"].data_arrays or T["b"].create_data_array("taken-positions", "t", data=[1.0]))
    add("Block.create_multi_tag(raw)", "extents_array_name_taken", lambda T: T["b"].create_multi_tag("taken2", "t", np.array([1.0]), np.array([2.0])),
        setup=lambda T: "taken2-extents" in T["b"].data_arrays or T["b"].create_data_array("taken2-extents", "t", data=[1.0]))
    add("Block.create_multi_tag(raw)", "extents_unconvertible", lambda T: T["b"].create_multi_tag("badext", "t", np.array([1.0]), np.array([{"a": 1}], dtype=object)), lambda T: T["b"].create_multi_tag("badext", "t", np.array([1.0])))
    for key in ("tag", "mtag"):
        site = "Tag.create_feature" if key == "tag" else "MultiTag.create_feature"
        add(site, "data_none", lambda T, key=key: T[key].create_feature(None, LT.Untagged))
        add(site, "data_foreign_block_same_name", lambda T, key=key: T[key].create_feature(T["other"].data_arrays["da_num"], LT.Tagged))
        add(site, "data_wrong_kind", lambda T, key=key: T[key].create_feature(T["tag2"], LT.Indexed))
        add(site, "frame_with_tagged_link", lambda T, key=key: T[key].create_feature(T["df"], LT.Tagged))
        add(site, "frame_with_tagged_link_as_string", lambda T, key=key: T[key].create_feature(T["df"], "tagged"))
        add(site, "unknown_link_type", lambda T, key=key: T[key].create_feature(T["d1"], "bogus"), lambda T, key=key: T[key].create_feature(T["d1"], "indexed"))
        add(site.replace("create_feature", "features.__delitem__"), "index_out_of_range", lambda T, key=key: T[key].features.__delitem__(42))
    add("Feature.data", "none", lambda T: setattr(T["tag"].features[0], "data", None))
    add("Feature.data", "foreign_block_same_name", lambda T: setattr(T["tag"].features[0], "data", T["other"].data_arrays["da_set"]))
    add("Feature.data", "wrong_kind", lambda T: setattr(T["tag"].features[0], "data", T["grp"]))
    add("Feature.data", "frame_on_tagged_feature", lambda T: setattr(T["tag2"].features[0], "data", T["df"]),
        setup=lambda T: len(T["tag2"].features) or T["tag2"].create_feature(T["d1"], LT.Tagged))
    add("Feature.link_type", "unknown", lambda T: setattr(T["tag"].features[0], "link_type", "bogus"))
    # ---- groups ----------------------------------------------------------------------------------------------
    for cn, ok, wrong, foreign in (("data_arrays", "ds", "tag", "da_1d"), ("data_frames", "df", "da", "df"), ("tags", "tag2", "mtag", "tag"), ("multi_tags", "mtag_raw", "tag", "mtag")):
        add("Group.%s.append" % cn, "wrong_kind", lambda T, cn=cn, wrong=wrong: getattr(T["grp"], cn).append(T[wrong]))
        add("Group.%s.append" % cn, "foreign_block_same_name", lambda T, cn=cn, foreign=foreign: getattr(T["grp"], cn).append(getattr(T["other"], cn)[foreign]))
        add("Group.%s.extend" % cn, "valid_then_foreign", lambda T, cn=cn, ok=ok, foreign=foreign: getattr(T["grp_empty"], cn).extend([T[ok], getattr(T["other"], cn)[foreign]]),
            lambda T, cn=cn, ok=ok: getattr(T["grp_empty"], cn).extend([T[ok]]))
        add("Group.%s.extend" % cn, "not_iterable", lambda T, cn=cn: getattr(T["grp"], cn).extend(5))
        add("Group.%s.__delitem__" % cn, "unknown_name", lambda T, cn=cn: getattr(T["grp"], cn).__delitem__("nope"))
        add("Group.%s.__delitem__" % cn, "index_out_of_range", lambda T, cn=cn: getattr(T["grp"], cn).__delitem__(17))
        add("Block.%s.__delitem__" % cn, "unknown_name", lambda T, cn=cn: getattr(T["b"], cn).__delitem__("nope"))
        add("Block.%s.__delitem__" % cn, "index_out_of_range", lambda T, cn=cn: getattr(T["b"], cn).__delitem__(99))
        add("Block.%s.__delitem__" % cn, "wrong_kind_object", lambda T, cn=cn: getattr(T["b"], cn).__delitem__(T["src"]))
    add("Group.sources.append", "foreign_tree", lambda T: T["grp"].sources.append(T["other"].sources["src2"]))
    add("File.blocks.__delitem__", "unknown_name", lambda T: T["f"].blocks.__delitem__("nope"))
    add("File.sections.__delitem__", "index_out_of_range", lambda T: T["f"].sections.__delitem__(5))
    add("Section.props.__delitem__", "unknown_name", lambda T: T["sec"].props.__delitem__("nope"))
    add("Section.__delitem__", "unknown_key", lambda T: T["sec"].__delitem__("nope"))
    add("Source.sources.__delitem__", "unknown_name", lambda T: T["src"].sources.__delitem__("nope"))
    # ---- generic attributes -------------------------------------------------------------------------------------
    for key, kind in (("b", "Block"), ("da", "DataArray"), ("df", "DataFrame"), ("tag", "Tag"), ("mtag", "MultiTag"), ("grp", "Group"), ("src", "Source"), ("sec", "Section")):
        add("%s.type" % kind, "none", lambda T, key=key: setattr(T[key], "type", None))
        add("%s.type" % kind, "not_a_string", lambda T, key=key: setattr(T[key], "type", 5))
        add("%s.definition" % kind, "not_a_string", lambda T, key=key: setattr(T[key], "definition", 5))
        add("%s.force_created_at" % kind, "not_an_int", lambda T, key=key: T[key].force_created_at("yesterday"))
        if kind != "Section":
            add("%s.metadata" % kind, "wrong_kind", lambda T, key=key: setattr(T[key], "metadata", T["d1"]))
    add("Section.link", "wrong_kind", lambda T: setattr(T["sec"], "link", T["b"]))
    add("Section.repository", "not_a_string", lambda T: setattr(T["sec"], "repository", 5))
    add("Section.reference", "not_a_string", lambda T: setattr(T["sec"], "reference", 5))
    # ---- properties -----------------------------------------------------------------------------------------------
    add("Property.values", "wrong_type", lambda T: setattr(T["p_int"], "values", ["a", "b", "c", "d", "e"]))
    add("Property.values", "mixed_types", lambda T: setattr(T["p_float"], "values", [1.5, "a"]))
    add("Property.values", "mixed_types_late", lambda T: setattr(T["p_text"], "values", ["a", "b", "c", 4]))
    add("Property.values", "bool_among_ints", lambda T: setattr(T["p_int"], "values", [1, True]))
    add("Property.extend_values", "wrong_type", lambda T: T["p_int"].extend_values([1.5]))
    add("Property.extend_values", "mixed_types", lambda T: T["p_text"].extend_values(["x", 1]))
    add("Property.unit", "not_a_string", lambda T: setattr(T["p_int"], "unit", 5))
    add("Property.uncertainty", "not_a_number", lambda T: setattr(T["p_int"], "uncertainty", "a"))
    add("Property.definition", "not_a_string", lambda T: setattr(T["p_int"], "definition", 5))
    add("Property.odml_type", "incompatible", lambda T: setattr(T["p_int"], "odml_type", nix.property.OdmlType.String))
    add("Property.odml_type", "not_an_odml_type", lambda T: setattr(T["p_int"], "odml_type", "int"))
    # ---- data frames -------------------------------------------------------------------------------------------------
    def df_fault(fault, **kw):
        nm = "newdf_" + fault
        add("Block.create_data_frame", fault, lambda T: T["b"].create_data_frame(nm, "t", **kw), lambda T: T["b"].create_data_frame(nm, "t", col_dict=OrderedDict([("a", int)])))
    df_fault("rows_wrong_length", col_dict=OrderedDict([("a", int), ("b", float)]), data=[(1, 2.0, 3)])
    df_fault("rows_unconvertible", col_dict=OrderedDict([("a", int)]), data=[("x",)])
    df_fault("names_dtypes_length_mismatch", col_names=["a", "b"], col_dtypes=[int])
    df_fault("unsupported_column_type", col_dict=OrderedDict([("a", dict)]))
    # ---- whole numbers outside the range of the element type (NumPy refuses them with OverflowError, an ArithmeticError) ----
    df_fault("cell_beyond_int64", col_dict=OrderedDict([("a", nix.DataType.Int64), ("b", str)]), data=[(1, "x"), (2 ** 63, "y")])
    df_fault("cell_beyond_int8", col_dict=OrderedDict([("a", np.int8)]), data=[(300,)])
    df_fault("negative_cell_in_unsigned_column", col_dict=OrderedDict([("a", np.uint64)]), data=[(-1,)])
    df_fault("cell_beyond_double", col_dict=OrderedDict([("a", nix.DataType.Double)]), data=[(10 ** 400,)])
    add("DataFrame.append_rows", "cell_beyond_int64", lambda T: T["df"].append_rows([tuple(2 ** 63 if isinstance(c, (int, np.integer)) and not isinstance(c, (bool, np.bool_)) else c for c in tuple(T["df"][0]))]))
    add("DataFrame.write_cell", "cell_beyond_int64", lambda T: T["df"].write_cell(2 ** 64, position=(0, [i for i, c in enumerate(tuple(T["df"][0])) if isinstance(c, (int, np.integer)) and not isinstance(c, (bool, np.bool_))][0])))
    add("Block.create_data_array", "value_beyond_int8", lambda T: T["b"].create_data_array("ovf_i8", "t", dtype=np.int8, data=[1, 300]), lambda T: T["b"].create_data_array("ovf_i8", "t", data=[1.0]))
    add("Block.create_data_array", "value_beyond_double", lambda T: T["b"].create_data_array("ovf_f8", "t", dtype=np.float64, data=[1, 10 ** 400]), lambda T: T["b"].create_data_array("ovf_f8", "t", data=[1.0]))
    add("Block.create_tag", "position_beyond_double", lambda T: T["b"].create_tag("ovf_pos", "t", [1.0, 10 ** 400]), lambda T: T["b"].create_tag("ovf_pos", "t", [1.0]))
    add("Tag.position", "beyond_double", lambda T: setattr(T["tag"], "position", [10 ** 400]))
    add("Tag.extent", "beyond_double", lambda T: setattr(T["tag"], "extent", [10 ** 400]))
    add("RangeDimension.ticks", "beyond_double", lambda T: setattr(rdim(T), "ticks", [1.0, 10 ** 400]))
    add("RangeDimension.ticks", "whole_numbers_beyond_double", lambda T: setattr(rdim(T), "ticks", [10 ** 400, 10 ** 401, 10 ** 402]))
    add("RangeDimension(linked).ticks", "beyond_double", lambda T: setattr(T["dl"].dimensions[0], "ticks", [1.0, 10 ** 400]))
    add("RangeDimension(linked).ticks", "whole_numbers_beyond_double", lambda T: setattr(T["dl"].dimensions[0], "ticks", [10 ** 400, 10 ** 401]))
    add("DataArray.append_range_dimension", "ticks_beyond_double", lambda T: T["d1"].append_range_dimension([1.0, 10 ** 400]))
    add("DataArray.append_range_dimension", "ticks_whole_numbers_beyond_double", lambda T: T["d1"].append_range_dimension([10 ** 400, 10 ** 401]))
    add("DataArray.polynom_coefficients", "beyond_double", lambda T: setattr(T["dcal"], "polynom_coefficients", [1.0, 10 ** 400]))
    add("DataArray.expansion_origin", "beyond_double", lambda T: setattr(T["da"], "expansion_origin", 10 ** 400))
    add("SampledDimension.sampling_interval", "beyond_double", lambda T: setattr(T["da"].dimensions[0], "sampling_interval", 10 ** 400))
    add("DataArray.append_sampled_dimension", "interval_beyond_double", lambda T: T["d1"].append_sampled_dimension(10 ** 400))
    df_fault("no_schema")
    df_fault("duplicate_column_names", col_names=["a", "a"], col_dtypes=[int, int])
    add("DataFrame.append_rows", "rows_wrong_length", lambda T: T["df"].append_rows([(1, "a", 0.5, 7)]))
    add("DataFrame.append_rows", "rows_unconvertible", lambda T: T["df"].append_rows([("x", "a", 0.5)]))
    add("DataFrame.write_rows", "row_out_of_range", lambda T: T["df"].write_rows([(1, "a", 0.5)], [99]))
    add("DataFrame.write_rows", "rows_wrong_length", lambda T: T["df"].write_rows([(1, "a")], [0]))
    add("DataFrame.write_column", "wrong_length", lambda T: T["df"].write_column([1, 2], name="n"))
    add("DataFrame.write_column", "unknown_column", lambda T: T["df"].write_column(list(range(len(T["df"]))), name="nope"))
    add("DataFrame.write_column", "index_out_of_range", lambda T: T["df"].write_column(list(range(len(T["df"]))), index=9))
    add("DataFrame.write_column", "unconvertible", lambda T: T["df"].write_column(["x"] * len(T["df"]), name="n"))
    add("DataFrame.write_cell", "position_out_of_range", lambda T: T["df"].write_cell(1, position=[99, 0]))
    add("DataFrame.write_cell", "column_out_of_range", lambda T: T["df"].write_cell(1, position=[0, 9]))
    add("DataFrame.write_cell", "unknown_column", lambda T: T["df"].write_cell(1, col_name="nope", row_idx=0))
    add("DataFrame.append_column", "duplicate_name", lambda T: T["df"].append_column([1] * len(T["df"]), "n", datatype=nix.DataType.Int64))
    add("DataFrame.append_column", "wrong_length", lambda T: T["df"].append_column([1.0], "extra", datatype=nix.DataType.Double), lambda T: T["df"].append_column([1.0] * len(T["df"]), "extra", datatype=nix.DataType.Double))
    # ---- copies onto existing names -----------------------------------------------------------------------------------
    add("Block.create_data_array(copy_from)", "existing_name", lambda T: T["b"].create_data_array(copy_from=T["d1"]))
    add("Block.create_tag(copy_from)", "existing_name", lambda T: T["b"].create_tag(copy_from=T["tag"]))
    add("Block.create_multi_tag(copy_from)", "existing_name", lambda T: T["b"].create_multi_tag(copy_from=T["mtag"]))
    add("Block.create_data_frame(copy_from)", "existing_name", lambda T: T["b"].create_data_frame(copy_from=T["df"]))
    add("File.create_block(copy_from)", "existing_name", lambda T: T["f"].create_block(copy_from=T["b"]))
    add("Section.create_property(copy_from)", "existing_name", lambda T: T["sec"].create_property(copy_from=T["p_int"]))
    add("Section.copy_section", "existing_name", lambda T: T["sec"].copy_section(T["sub"]))
    add("Block.create_data_array(copy_from)", "wrong_kind", lambda T: T["b"].create_data_array(name="wk", copy_from=T["tag"]), lambda T: T["b"].create_data_array(name="wk", copy_from=T["d1"]))
    add("Block.create_tag(copy_from)", "wrong_kind", lambda T: T["b"].create_tag(name="wk2", copy_from=T["d1"]), lambda T: T["b"].create_tag(name="wk2", copy_from=T["tag"]))
    add("Section.create_property(copy_from)", "wrong_kind", lambda T: T["sec"].create_property(name="wk3", copy_from=T["sub"]), lambda T: T["sec"].create_property(name="wk3", copy_from=T["p_int"]))
    add("Section.copy_section", "wrong_kind", lambda T: T["sec"].copy_section(T["b"]))
    return C


class Probes:
    """Counts low-level write attempts (H5Group / H5DataSet mutators) - never alters behaviour."""
    NAMES_G = ("set_attr", "create_link", "delete", "delete_all", "create_dataset", "write_data", "copy", "__delitem__")
    NAMES_D = ("write_data", "set_attr")

    def __init__(self):
        from nixio.hdf5.h5group import H5Group
        from nixio.hdf5.h5dataset import H5DataSet
        self.n = 0
        self.saved = []
        for cls, names in ((H5Group, self.NAMES_G), (H5DataSet, self.NAMES_D)):
            for nm in names:
                orig = getattr(cls, nm, None)
                if orig is None:
                    continue
                self.saved.append((cls, nm, orig))
                setattr(cls, nm, self.wrap(orig))

    def wrap(self, orig):
        probes = self

        def w(self_, *a, **kw):
            probes.n += 1
            return orig(self_, *a, **kw)
        w.__name__ = getattr(orig, "__name__", "w")
        return w

    def restore(self):
        for cls, nm, orig in self.saved:
            setattr(cls, nm, orig)


def raw_fp(f):
    from .. import snapshot
    h = getattr(f, "_h5file", None)
    if h is None:
        return None
    return snapshot.raw_fingerprint(snapshot.rawscan(h))


def run_state(ctx, nix, np, path, rng, rep, spec, cat, mine):
    from .. import catalog, snapshot, clock
    from ..core import raised_in_library
    clock.install()
    f = catalog.build_fixture(nix, path, rng, rng.randint(0, spec["extra"]), compression=rng.choice(list(nix.Compression)))
    probes = Probes()
    try:
        order = list(mine)
        rng.shuffle(order)
        pre = snapshot.snapshot(nix, f)
        pre_raw = raw_fp(f)
        for ci in order:
            site, fault, fn, retry, setup = cat[ci]
            which = rng.randrange(2)
            try:
                T = catalog.targets(nix, f, which)
                if setup is not None:
                    setup(T)
                    T = catalog.targets(nix, f, which)
                    pre = snapshot.snapshot(nix, f)
                    pre_raw = raw_fp(f)
            except Exception:
                ctx.count("state_unusable")
                ctx.case((site, fault, "not_applicable"))
                continue
            w0 = probes.n
            info = dict(rep, site=site, fault=fault)
            try:
                fn(T)
                raised = None
            except Exception as e:
                raised = e
            wrote = probes.n - w0
            if raised is None:
                ctx.count("accepted")
                ctx.observe("accepted:%s:%s" % (site, fault))
                ctx.case((site, fault, "accepted"), sample={"site": site, "fault": fault, "outcome": "accepted (not a C12 event)"})
                pre = snapshot.snapshot(nix, f)
                pre_raw = raw_fp(f)
                continue
            outcome = "refused_clean" if wrote == 0 else "refused_after_write"
            ctx.count(outcome)
            post = snapshot.snapshot(nix, f)
            post_raw = raw_fp(f)
            d = snapshot.diff(pre, post, limit=6)
            info["exception"] = "%s: %s" % (type(raised).__name__, str(raised)[:160])
            info["low_level_writes_before_refusal"] = wrote
            if d:
                for x in d[:3]:
                    if "field" in x:
                        what = "%s.%s_changed" % (x["entity"].split(":")[0], x["field"])
                    else:
                        what = "%s_%s" % (x["entity"].split(":")[0], x["change"])
                    ctx.violation("residue:%s:%s:%s" % (site, fault, what), dict(info, diff=x), dict(rep, only=ci))
            elif pre_raw is not None and post_raw is not None and pre_raw[0] != post_raw[0]:
                only_pre = [r for r in pre_raw[1] if r not in post_raw[1]][:2]
                only_post = [r for r in post_raw[1] if r not in pre_raw[1]][:2]
                lk = [l for l in post_raw[2] if l not in pre_raw[2]][:3] + [("-",) + l for l in pre_raw[2] if l not in post_raw[2]][:3]
                ctx.violation("raw_residue:%s:%s" % (site, fault), dict(info, gone=repr(only_pre)[:300], new=repr(only_post)[:300], links=repr(lk)[:300]), dict(rep, only=ci))
            for p in post.problems:
                if p["kind"] in ("walk_raises",):
                    ctx.violation("residue:%s:%s:walk_raises_%s" % (site, fault, p.get("error")), dict(info, problem=p), dict(rep, only=ci))
            ctx.case((site, fault, outcome), sample={"site": site, "fault": fault, "outcome": outcome, "exception": info["exception"]})
            ctx.count("refusals_judged")
            changed = bool(d) or (pre_raw is not None and post_raw is not None and pre_raw[0] != post_raw[0])
            # the retry with a valid argument
            if retry is not None:
                try:
                    retry(catalog.targets(nix, f, which))
                    ctx.count("retries_succeeded")
                    changed = True
                except Exception as e:
                    ctx.violation("retry_refused:%s:%s:%s" % (site, fault, type(e).__name__), dict(info, retry_error=repr(e)[:300], residue_before_retry=bool(d)), dict(rep, only=ci))
                    changed = True
            if changed:
                pre = snapshot.snapshot(nix, f)
                pre_raw = raw_fp(f)
    finally:
        probes.restore()
        try:
            f.close()
        except Exception:
            pass


def run_shard(spec, ctx):
    import numpy as np
    from .. import env
    nix = env.import_nixio()
    cat = catalogue(nix, np)
    ctx.count("catalogue_pairs", len(cat) if spec["i"] == 0 else 0)
    path = env.scratch_file("c12_%d.nix" % ctx.shard)
    for si in range(spec["states"]):
        rng = ctx.rng("c12", si)
        # every pair is injected into >= 2 (quick) states: state si takes the pairs  (index + si*5) % 16 == shard  ... rotated per state
        mine = [ci for ci in range(len(cat)) if (ci + si * 5) % NSHARDS == spec["i"] % NSHARDS]
        if si % 2 == 1:
            mine += [ci for ci in range(len(cat)) if (ci + si * 5 + 8) % NSHARDS == spec["i"] % NSHARDS]
        rep = {"state": si, "shard": ctx.shard, "extra": spec["extra"]}
        ctx.guarded("state", run_state, ctx, nix, np, path, rng, rep, spec, cat, mine)


def finish(m, tier):
    c = m["counters"]
    if not c.get("refusals_judged"):
        m["inconclusive"].append("no refused call was judged")


def replay(w, ctx):
    import numpy as np
    from .. import env
    nix = env.import_nixio()
    cat = catalogue(nix, np)
    ctx.shard = w.get("shard", 0)
    ctx.case(("replay",))
    rng = ctx.rng("c12", w["state"])
    run_state(ctx, nix, np, env.scratch_file("c12_replay.nix"), rng, w, {"extra": w.get("extra", 40)}, cat, [w["only"]])
