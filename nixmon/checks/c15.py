"""C15 - calibration is applied on every read and never touches the stored values.

Oracle: NumPy polynomial of the raw values (read directly through h5py from the
dataset) in float64; slicing/calibration commutation is compared bit-exactly.
"""
ID = "C15"
LEVEL = "exploration"
TECHNIQUE = "runtime reference-model monitor: NumPy polynomial of the raw dataset (read through h5py) vs every read path; exact commutation check; raw bytes compared after every calibration change"
RULE = ("Case = one array (10 numeric element types, rank 1-3) driven through 1-6 calibration steps (set/replace/clear "
        "coefficients of length 0-5 incl. zeros, set/clear origin in {None,0,0.0,2.5,-3,1}, reopen); after every step "
        "8 read paths (whole x3, read_direct, view, tag, multi-tag, element/region) are compared with sum c_k (x-o)^k "
        "in float64 (error bound 1e-12 * sum |c_k||x-o|^k), da[e] with da[:][e] bit-exactly, and the raw dataset with "
        "the values written.  Distinct by (dtype class, number of coefficients, origin class, step kinds); trivial = none.")
ASSUMPTIONS = ["calibrated values are compared with a condition-aware bound 1e-12 * sum|c_k||x-o|^k (Horner vs power sums)",
               "no coefficients with a non-zero origin means the identity polynomial: x - o",
               "the raw dataset is read through the entity's private h5py handle; if that handle is unavailable the raw comparison is made through the API after clearing the calibration"]

LAYER_B = ['C15']      # monitors of nixmon/passive/plugin.py run over the repository's own tests in the thorough tier
NSHARDS = 16
DT = ["uint8", "uint16", "uint32", "uint64", "int8", "int16", "int32", "int64", "float32", "float64"]


def plan(tier, seed):
    n = 60 if tier == "quick" else 800
    return [{"i": i, "cases": n} for i in range(NSHARDS)]


def poly(np, raw, c, o):
    x = raw.astype(np.float64) - (o if o else 0.0)
    if not len(c):
        return x, np.abs(x)
    with np.errstate(all="ignore"):
        acc = np.zeros_like(x)
        mag = np.zeros_like(x)
        for k, ck in enumerate(c):
            t = ck * x ** k
            acc = acc + t
            mag = mag + np.abs(t)
    return acc, mag


def close_enough(np, got, exp, mag):
    with np.errstate(all="ignore"):
        if got.shape != exp.shape:
            return False
        fin = np.isfinite(exp) & np.isfinite(mag)
        ok_fin = np.abs(got[fin] - exp[fin]) <= 1e-12 * mag[fin] + 1e-300
        rest_g, rest_e = got[~fin], exp[~fin]
        # non-finite expected values (overflow, inf-inf): only require non-finite or equal
        ok_rest = (~np.isfinite(rest_g)) | (rest_g == rest_e)
        return bool(np.all(ok_fin) and np.all(ok_rest))


def run_case(ctx, nix, np, path, rng, rep):
    f = nix.File.open(path, nix.FileMode.Overwrite)
    st = {"f": f}
    try:
        b = f.create_block("b", "t")
        dt = np.dtype(rng.choice(DT))
        rank = rng.randint(1, 3)
        shape = tuple(rng.randint(1, 4) for _ in range(rank))
        n = int(np.prod(shape))
        if dt.kind in "iu":
            ii = np.iinfo(dt)
            raw = np.array([rng.choice([0, 1, 2, 5, ii.max, ii.min, 100, 7]) for _ in range(n)], dtype=dt).reshape(shape)
        else:
            raw = np.array([rng.choice([0.0, 1.5, -2.25, 1e3, 3.0, 1 / 3, -0.0]) for _ in range(n)], dtype=dt).reshape(shape)
        da = b.create_data_array("d", "t", data=raw)
        for _ in range(rank):
            da.append_sampled_dimension(1.0)
        tg = b.create_tag("tg", "t", [0.0] * rank)
        tg.extent = [float(s - 1) for s in shape]
        tg.references.append(da)
        mt = b.create_multi_tag("mt", "t", np.zeros((1, rank)), np.array([[float(s - 1) for s in shape]]))
        mt.references.append(da)
        c, o = [], None
        kinds = []
        other = None
        da[:]               # the reading handle has read once before any calibration is set
        nsteps = rng.randint(1, 6)
        for si in range(nsteps):
            op = rng.choice(["coef", "coef", "origin", "clear_coef", "clear_origin", "reopen"])
            kinds.append(op)
            # the calibration is changed through the handle that also reads (da), or through another handle of the
            # same array (kept since the start, or fetched just now) - every read must follow, whichever handle wrote
            via = rng.choice(["reader", "second", "fresh"])
            if via == "second" and other is None:
                other = b.data_arrays[da.id]
            wda = {"reader": da, "second": other, "fresh": None}[via] or b.data_arrays["d"]
            if op != "reopen":
                ctx.count("calibration_set_through:" + via)
            try:
                if op == "coef":
                    c = [rng.choice([0.0, 1.0, 2.0, -0.5, 0.25, 3.0]) for _ in range(rng.randint(1, 5))]
                    wda.polynom_coefficients = c if rng.random() < 0.7 else tuple(c)
                elif op == "origin":
                    o = rng.choice([0, 0.0, 2.5, -3, 1])
                    wda.expansion_origin = o
                elif op == "clear_coef":
                    c = []
                    wda.polynom_coefficients = rng.choice([None, []])
                elif op == "clear_origin":
                    o = None
                    wda.expansion_origin = None
                else:
                    st["f"].close()
                    st["f"] = nix.File.open(path, rng.choice([nix.FileMode.ReadOnly, nix.FileMode.ReadWrite]))
                    b = st["f"].blocks[0]
                    da, tg, mt = b.data_arrays["d"], b.tags["tg"], b.multi_tags["mt"]
                    other = None
                    if st["f"].mode == nix.FileMode.ReadOnly and si < nsteps - 1:
                        st["f"].close()
                        st["f"] = nix.File.open(path, nix.FileMode.ReadWrite)
                        b = st["f"].blocks[0]
                        da, tg, mt = b.data_arrays["d"], b.tags["tg"], b.multi_tags["mt"]
                        other = None
            except Exception as e:
                ctx.violation("step:%s:raises_%s" % (op, type(e).__name__), dict(rep, step=si, error=repr(e)), rep)
                return kinds, str(dt), c, o
            calibrated = bool(len(c)) or bool(o)
            ccls = ("coef" if c else "") + ("+origin" if o else "") or "none"
            info = dict(rep, dtype=str(dt), shape=list(shape), coefficients=c, origin=o, after=op)
            # raw dataset untouched
            try:
                rawnow = da._h5group.group["data"][...]
                if rawnow.dtype != raw.dtype or not np.array_equal(rawnow, raw):
                    ctx.violation("raw_changed:%s" % op, dict(info, raw=rawnow, expected=raw), rep)
                ctx.count("raw_compared")
            except AttributeError:
                ctx.count("raw_handle_unavailable")
            exp, mag = poly(np, raw, c, o) if calibrated else (raw, None)
            reads = {}
            try:
                reads["[:]"] = da[:]
                reads["[...]"] = da[...]
                reads["np.array"] = np.array(da)
                reads["view"] = da.get_slice([0] * rank, list(shape))[:]
                reads["tagged"] = tg.tagged_data(0, nix.SliceMode.Inclusive)[:]
                reads["mtagged"] = mt.tagged_data(0, 0, nix.SliceMode.Inclusive)[:]
                buf = np.empty(shape, dtype=np.float64 if calibrated else dt)
                da.read_direct(buf)
                reads["read_direct"] = buf
            except Exception as e:
                ctx.violation("read:raises_%s:%s" % (type(e).__name__, ccls), dict(info, error=repr(e)), rep)
                continue
            for how, got in reads.items():
                got = np.asarray(got)
                ctx.count("reads_compared")
                if got.dtype != exp.dtype:
                    ctx.violation("%s:dtype:%s" % (how, ccls), dict(info, got=str(got.dtype), expected=str(exp.dtype)), rep)
                    continue
                if got.shape != exp.shape:
                    ctx.violation("%s:shape:%s" % (how, ccls), dict(info, got=list(got.shape)), rep)
                    continue
                if calibrated:
                    if not close_enough(np, got, exp, mag):
                        ctx.violation("%s:values:%s" % (how, ccls), dict(info, got=got, expected=exp), rep)
                elif not np.array_equal(got, exp):
                    ctx.violation("%s:raw_values:%s" % (how, ccls), dict(info, got=got, expected=exp), rep)
            whole = np.asarray(da[:])
            for _ in range(4):
                idx = tuple(rng.choice([rng.randrange(s), slice(*sorted([rng.randint(0, s), rng.randint(0, s)])),
                                        slice(None, None, 2), slice(None)]) for s in shape)
                e = np.asarray(whole[idx])
                e = e.reshape((1,)) if e.ndim == 0 else e
                ctx.count("commutations_compared")
                try:
                    a = np.asarray(da[idx])
                    if a.shape != e.shape or a.dtype != e.dtype or not np.array_equal(a, e, equal_nan=True):
                        ctx.violation("commute:array:%s" % ccls, dict(info, index=repr(idx), sliced=a, whole_then_sliced=e), rep)
                    v = np.asarray(da.get_slice([0] * rank, list(shape))[idx])
                    if v.shape != e.shape or v.dtype != e.dtype or not np.array_equal(v, e, equal_nan=True):
                        ctx.violation("commute:view:%s" % ccls, dict(info, index=repr(idx), sliced=v, whole_then_sliced=e), rep)
                except Exception as ex:
                    ctx.violation("commute:raises_%s:%s" % (type(ex).__name__, ccls), dict(info, index=repr(idx), error=repr(ex)), rep)
        # final: clearing everything gives back the raw values in the stored type
        try:
            if st["f"].mode != nix.FileMode.ReadOnly:
                da.polynom_coefficients = None
                da.expansion_origin = None
                back = np.asarray(da[:])
                if back.dtype != raw.dtype or not np.array_equal(back, raw):
                    ctx.violation("after_clear:raw_values", dict(rep, got=back, expected=raw), rep)
        except Exception as e:
            ctx.violation("after_clear:raises_%s" % type(e).__name__, dict(rep, error=repr(e)), rep)
        return kinds, str(dt), c, o
    finally:
        try:
            st["f"].close()
        except Exception:
            pass


def run_shard(spec, ctx):
    from .. import env
    nix = env.import_nixio()
    import numpy as np
    path = env.scratch_file("c15_%d.nix" % ctx.shard)
    for k in range(spec["cases"]):
        rng = ctx.rng("c15", k)
        rep = {"case": k, "shard": ctx.shard}
        r = ctx.guarded("case", run_case, ctx, nix, np, path, rng, rep)
        if r:
            kinds, dt, c, o = r
            ctx.case((dt[0] + dt[-1], len(c), "none" if o is None else ("zero" if not o else "nonzero"), tuple(sorted(set(kinds)))),
                     sample={"dtype": dt, "steps": kinds, "final_coefficients": c, "final_origin": o})
        else:
            ctx.case(None)


def replay(w, ctx):
    from .. import env
    nix = env.import_nixio()
    import numpy as np
    ctx.shard = w.get("shard", 0)
    ctx.case(("replay",))
    run_case(ctx, nix, np, env.scratch_file("c15_replay.nix"), ctx.rng("c15", w["case"]), w)
