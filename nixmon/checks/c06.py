"""C06 - index expressions on arrays and views mean what they mean in NumPy.

Oracle: NumPy on an in-memory copy of the data (window = a[slices]).  A 0-d
result is compared as shape (1,).  After a write through any path the WHOLE
underlying array is compared with the model after the same NumPy assignment.
"""
import itertools

ID = "C06"
LEVEL = "exploration"
TECHNIQUE = "runtime differential oracle: every read/assignment on real DataArray/DataView objects is replayed with NumPy on an in-memory model; whole-array comparison after each write"
EXHAUSTIVE = ("rank 1, n=0..4 (thorough: 0..5): all windows start in [0,n+2] x extent in [0,n+2] and all index "
              "expressions from ints [-n-2,n+1], slices start/stop in [-n-3,n+3]+None, step in {None,1,2,3,n+1}, "
              "Ellipsis forms - read on the array and on every valid window")
RULE = ("Case = one index expression applied (read or write) to a DataArray or to a DataView window and compared "
        "with NumPy.  Rank 1 is enumerated completely (see exhaustive_subspace); ranks 2-4 are sampled from the same "
        "component alphabet, one Ellipsis at any position; integer components also as NumPy integers of every width (uint8 ... int64) on arrays of 300-1000 "
        "elements and on windows that start beyond the range of the narrow types.  Distinct by (rank, object, window class per dimension, "
        "component kinds, read|write, outcome class); trivial = none.")
ASSUMPTIONS = ["expressions are ints, slices of positive step, None bounds and at most one Ellipsis, with at most rank components (A10)",
               "steps <= 0 may be refused with any error",
               "a window with a negative start may be refused, be empty, or equal NumPy's a[p:p+e] (A1)",
               "values written are of the array's own dtype"]

LAYER_B = ['C06']      # monitors of nixmon/passive/plugin.py run over the repository's own tests in the thorough tier
NSHARDS = 16
SHAPES = {
    2: [(2, 3), (3, 1), (0, 2), (3, 3), (1, 1), (4, 2)],
    3: [(2, 2, 2), (1, 3, 2), (2, 0, 2), (3, 2, 1)],
    4: [(2, 1, 2, 2), (1, 2, 3, 1), (2, 2, 1, 0)],
}


def plan(tier, seed):
    k = 1 if tier == "quick" else 8
    return [{"i": i, "rank1_max": 4 if tier == "quick" else 5, "nd_exprs": 500 * k, "nd_windows": 12 * k,
             "win_exprs": 60 * (2 if tier == "thorough" else 1)} for i in range(NSHARDS)]


def comps(n):
    ints = list(range(-n - 2, n + 2))
    bounds = [None] + list(range(-n - 3, n + 4))
    steps = [None, 1, 2, 3, n + 1]
    sl = [slice(a, b, c) for a in bounds for b in bounds for c in steps]
    return ints, sl


def kind_of(expr):
    parts = expr if isinstance(expr, tuple) else (expr,)
    ks = set()
    for p in parts:
        if p is Ellipsis:
            ks.add("ellipsis")
        elif isinstance(p, slice):
            ks.add("slice_step" if p.step not in (None, 1) else "slice")
        else:
            ks.add("int")
    return "+".join(sorted(ks)) or "empty"


def expr_json(expr):
    parts = expr if isinstance(expr, tuple) else (expr,)
    out = []
    for p in parts:
        if p is Ellipsis:
            out.append("...")
        elif isinstance(p, slice):
            out.append([p.start, p.stop, p.step])
        else:
            out.append(int(p))
    return {"tuple": isinstance(expr, tuple), "parts": out}


def expr_from_json(j):
    parts = []
    for p in j["parts"]:
        if p == "...":
            parts.append(Ellipsis)
        elif isinstance(p, list):
            parts.append(slice(*p))
        else:
            parts.append(p)
    return tuple(parts) if j["tuple"] else parts[0]


class H:
    def __init__(self, ctx):
        from .. import env
        self.nix = env.import_nixio()
        import numpy as np
        self.np = np
        self.ctx = ctx
        self.path = env.scratch_file("c06_%d.nix" % ctx.shard)
        self.f = self.nix.File.open(self.path, self.nix.FileMode.Overwrite)
        self.b = self.f.create_block("b", "t")
        self.k = 0
        self.wcount = 100

    def close(self):
        try:
            self.f.close()
        except Exception:
            pass

    def array(self, shape, dtype="float64"):
        np = self.np
        self.k += 1
        a = (np.arange(int(np.prod(shape))).reshape(shape) + 10).astype(dtype)
        da = self.b.create_data_array("a%d" % self.k, "t", data=a)
        return da, a

    def read(self, obj, model, expr, label, sig, rep):
        np, ctx = self.np, self.ctx
        kinds = kind_of(expr)
        rep = dict(rep, op="read", expr=expr_json(expr))
        try:
            exp = model[expr]
            exp_err = None
        except IndexError as e:
            exp, exp_err = None, e
        try:
            got = obj[expr]
            got_err = None
        except Exception as e:
            got, got_err = None, e
        if exp_err is not None:
            ctx.case(sig + ("read", kinds, "oob"))
            if got_err is None:
                ctx.violation("read:%s:oob_yields_data:%s" % (label, kinds), dict(rep, got=got), rep)
            elif not isinstance(got_err, IndexError):
                ctx.violation("read:%s:oob_wrong_exception_%s:%s" % (label, type(got_err).__name__, kinds),
                              dict(rep, error=repr(got_err)), rep)
            else:
                ctx.count("oob_refused")
            return
        ctx.case(sig + ("read", kinds, "legal"))
        if got_err is not None:
            ctx.violation("read:%s:legal_refused_%s:%s" % (label, type(got_err).__name__, kinds),
                          dict(rep, error=repr(got_err), expected=np.asarray(exp)), rep)
            return
        exp = np.asarray(exp)
        if exp.ndim == 0:
            exp = exp.reshape((1,))
        got = np.asarray(got)
        if got.shape != exp.shape:
            ctx.violation("read:%s:wrong_shape:%s" % (label, kinds), dict(rep, expected_shape=list(exp.shape), got_shape=list(got.shape)), rep)
        elif not np.array_equal(got, exp):
            ctx.violation("read:%s:wrong_data:%s" % (label, kinds), dict(rep, expected=exp, got=got), rep)
        ctx.count("reads_compared")

    def write(self, da, obj, a_full, window, expr, label, sig, rep, rng):
        """Returns the new model of the whole array."""
        np, ctx = self.np, self.ctx
        kinds = kind_of(expr)
        rep = dict(rep, op="write", expr=expr_json(expr))
        model = a_full.copy()
        wview = model[window] if window is not None else model
        scalar = rng.random() < 0.3
        try:
            tshape = wview[expr].shape
            self.wcount += 37
            mod = 251 if a_full.dtype.itemsize == 1 else 2 ** 30
            if scalar:
                val = np.asarray(self.wcount % mod, dtype=a_full.dtype)
            else:
                val = ((np.arange(int(np.prod(tshape))).reshape(tshape) + self.wcount) % mod).astype(a_full.dtype)
                self.wcount += int(np.prod(tshape))
            wview[expr] = val
            exp_err = None
        except IndexError as e:
            exp_err = e
            val = np.asarray(5, dtype=a_full.dtype)
        try:
            obj[expr] = val
            got_err = None
        except Exception as e:
            got_err = e
        try:
            now = np.asarray(da[...]) if a_full.ndim else np.asarray(da[:])
            if now.shape != a_full.shape:
                now = now.reshape(a_full.shape)
        except Exception as e:
            ctx.violation("write:%s:array_unreadable_after_write:%s" % (label, kinds), dict(rep, error=repr(e)), rep)
            return a_full
        ok = True
        if exp_err is not None:
            ctx.case(sig + ("write", kinds, "oob"))
            if got_err is None:
                ctx.violation("write:%s:oob_accepted:%s" % (label, kinds), rep, rep)
                ok = False
            elif not isinstance(got_err, IndexError):
                ctx.violation("write:%s:oob_wrong_exception_%s:%s" % (label, type(got_err).__name__, kinds), dict(rep, error=repr(got_err)), rep)
            if not np.array_equal(now, a_full):
                ctx.violation("write:%s:refused_write_changed_data:%s" % (label, kinds), dict(rep, before=a_full, after=now), rep)
                ok = False
            new = a_full
        else:
            ctx.case(sig + ("write", kinds, "legal", "scalar" if scalar else "array"))
            if got_err is not None:
                ctx.violation("write:%s:legal_refused_%s:%s" % (label, type(got_err).__name__, kinds), dict(rep, error=repr(got_err)), rep)
                new = a_full
                if not np.array_equal(now, a_full):
                    ctx.violation("write:%s:refused_write_changed_data:%s" % (label, kinds), dict(rep, before=a_full, after=now), rep)
                    ok = False
            else:
                new = model
                if not np.array_equal(now, model):
                    addressed = int(np.sum(model != a_full))
                    changed = int(np.sum(now != a_full))
                    ctx.violation("write:%s:wrong_data:%s" % (label, kinds),
                                  dict(rep, before=a_full, expected=model, got=now, cells_addressed=addressed, cells_changed=changed,
                                       scalar=scalar), rep)
                    ok = False
            ctx.count("writes_compared")
        if not ok:
            try:
                da[...] = new
            except Exception:
                pass
        return new


def win_class(start, ext, n):
    if start < 0:
        return "neg"
    if start + ext > n:
        return "past"
    if ext == 0:
        return "empty"
    if start + ext == n:
        return "touch_end"
    return "inside"


def make_view(h, da, a, st, ex, label_sig, rep):
    """Create a window; returns (view, numpy window slices) or (None, None) when correctly invalid / out of scope."""
    np, ctx = h.np, h.ctx
    shape = a.shape
    rep = dict(rep, window={"start": list(st), "extent": list(ex)})
    cls = tuple(win_class(s, e, n) for s, e, n in zip(st, ex, shape))
    ctx.case(label_sig + ("window", cls))
    try:
        v = da.get_slice(list(st), list(ex))
    except IndexError:
        if "past" in cls or "neg" in cls:
            ctx.count("window_refused")
            return None, None
        ctx.violation("window:legal_refused_IndexError", rep, dict(rep, op="window"))
        return None, None
    except Exception as e:
        if "neg" in cls:
            ctx.count("window_neg_refused")
            return None, None
        ctx.violation("window:raises_%s" % type(e).__name__, dict(rep, error=repr(e)), dict(rep, op="window"))
        return None, None
    win = tuple(slice(s, s + e) for s, e in zip(st, ex))
    if "neg" in cls:     # A1: refusal, empty, or numpy's a[p:p+e]
        try:
            got = np.asarray(v[:]) if v.valid else np.array([])
            if got.size and not (got.shape == a[win].shape and np.array_equal(got, a[win])):
                ctx.violation("window:negative_start_yields_other_data", dict(rep, got=got, numpy=a[win]), dict(rep, op="window"))
        except Exception:
            ctx.count("window_neg_refused")
        return None, None
    if "past" in cls:
        bad = False
        try:
            data = np.asarray(v[:])
            if v.valid or data.size:
                bad = True
        except IndexError:
            ctx.count("window_refused")
        except Exception as e:
            ctx.violation("window:past_extent_raises_%s" % type(e).__name__, dict(rep, error=repr(e)), dict(rep, op="window"))
        if bad:
            ctx.violation("window:past_extent_valid_or_nonempty", dict(rep, valid=bool(v.valid)), dict(rep, op="window"))
        # writing through an invalid view must be refused and change nothing
        try:
            v[...] = np.asarray(7, dtype=a.dtype)
            ctx.violation("window:write_through_invalid_view_accepted", rep, dict(rep, op="window"))
        except Exception:
            pass
        if not np.array_equal(np.asarray(da[...]).reshape(a.shape), a):
            ctx.violation("window:write_through_invalid_view_changed_data", rep, dict(rep, op="window"))
        ctx.count("windows_invalid_ok")
        return None, None
    if not v.valid:
        ctx.violation("window:legal_marked_invalid", rep, dict(rep, op="window"))
        return None, None
    try:
        if tuple(v.shape) != a[win].shape:
            ctx.violation("window:wrong_shape", dict(rep, got=list(v.shape), expected=list(a[win].shape)), dict(rep, op="window"))
    except Exception as e:
        ctx.violation("window:shape_raises_%s" % type(e).__name__, dict(rep, error=repr(e)), dict(rep, op="window"))
    ctx.count("windows_valid")
    return v, win


def rank1(h, n, rng, spec, full):
    ctx = h.ctx
    da, a = h.array((n,), "float64" if n % 2 == 0 else "int32")
    rep = {"shape": [n], "dtype": str(a.dtype)}
    ints, sl = comps(n)
    exprs = ints + sl + [Ellipsis] + [(Ellipsis, i) for i in ints] + [(i, Ellipsis) for i in ints] + \
        [(Ellipsis, s) for s in sl[::7]] + [(s, Ellipsis) for s in sl[::11]] + [(i,) for i in ints] + [(), (Ellipsis,)]
    sig = (1, "array")
    for e in exprs:
        h.read(da, a, e, "array", sig, rep)
    wr = exprs if full else rng.sample(exprs, min(120, len(exprs)))
    for e in wr:
        a = h.write(da, da, a, None, e, "array", sig, rep, rng)
    ctx.count("rank1_array_expressions", len(exprs))
    for start in range(-2, n + 3):
        for ext in range(0, n + 3):
            v, win = make_view(h, da, a, [start], [ext], (1,), rep)
            if v is None:
                continue
            w = a[win]
            ints2, sl2 = comps(ext)
            ex2 = ints2 + sl2 + [Ellipsis] + [(Ellipsis, i) for i in ints2] + [(i, Ellipsis) for i in ints2] + [(i,) for i in ints2]
            wsig = (1, "view", win_class(start, ext, n))
            vrep = dict(rep, window={"start": [start], "extent": [ext]})
            for e in ex2:
                h.read(v, w, e, "view", wsig, vrep)
            for e in (ex2 if full else rng.sample(ex2, min(40, len(ex2)))):
                a = h.write(da, v, a, win, e, "view", wsig, vrep, rng)
                w = a[win]
    ctx.count("rank1_complete_n%d" % n)


def numpy_integer_indices(h, rng):
    """Integers of NumPy's own integer types (any width) are integers: the same element as the Python integer of that value,
    on an array and on a window that starts beyond the range of the small types (so window start + index leaves uint8 / int8)."""
    np, ctx = h.np, h.ctx
    n = rng.choice([300, 400, 1000])
    da, a = h.array((n,), "float64")
    start, ext = rng.choice([(250, 40), (120, 100), (n - 30, 30), (0, n)])
    v, win = make_view(h, da, a, [start], [ext], (1, "npint"), {"shape": [n], "dtype": "float64"})
    w = a[win] if v is not None else None
    types = [np.uint8, np.int8, np.int16, np.uint16, np.int32, np.int64, np.uint64, np.intp]
    for ty in types:
        ii = np.iinfo(ty)
        for obj, model, label, length in ((da, a, "array", n), (v, w, "view", ext)):
            if obj is None:
                continue
            vals = {0, 1, length - 1, length, -1, -length, -length - 1, 10, 127, 128, 200, 255, rng.randrange(length)}
            for val in sorted(x for x in vals if ii.min <= x <= ii.max):
                rep = {"shape": [n], "dtype": "float64", "index_type": ty.__name__, "window": {"start": [start], "extent": [ext]} if label == "view" else None}
                h.read(obj, model, ty(val), label + ":numpy_" + ty.__name__, (1, label, "npint", ty.__name__), rep)
                ctx.count("numpy_integer_indices")
    # two dimensions: one NumPy integer, one slice
    da2, a2 = h.array((20, 300), "int32")
    v2, win2 = make_view(h, da2, a2, [3, 250], [10, 40], (2, "npint"), {"shape": [20, 300], "dtype": "int32"})
    if v2 is not None:
        w2 = a2[win2]
        for ty in (np.uint8, np.int8, np.int64):
            for expr in ((ty(2), slice(None)), (slice(1, 4), ty(10)), (ty(-1 if np.iinfo(ty).min < 0 else 9), ty(5)), (Ellipsis, ty(39))):
                h.read(v2, w2, expr, "view:numpy_" + ty.__name__, (2, "view", "npint", ty.__name__),
                       {"shape": [20, 300], "dtype": "int32", "window": {"start": [3, 250], "extent": [10, 40]}})
                ctx.count("numpy_integer_indices")


def rand_expr(rng, dims, rank):
    k = rng.randint(1, rank)
    tup = []
    for d in range(k):
        ints, sl = comps(dims[d] if d < len(dims) else 1)
        tup.append(rng.choice(ints) if rng.random() < 0.4 else rng.choice(sl))
    if rng.random() < 0.35:
        pos = rng.randint(0, len(tup))
        tup.insert(pos, Ellipsis)
        # components after the ellipsis address the trailing dimensions
        ntrail = len(tup) - pos - 1
        for j in range(ntrail):
            d = rank - ntrail + j
            ints, sl = comps(dims[d])
            tup[pos + 1 + j] = rng.choice(ints) if rng.random() < 0.4 else rng.choice(sl)
    if len(tup) == 1 and rng.random() < 0.5:
        return tup[0]
    return tuple(tup)


def ranknd(h, shape, rng, spec):
    ctx = h.ctx
    rank = len(shape)
    da, a = h.array(shape, rng.choice(["float64", "int64", "uint8"]))
    rep = {"shape": list(shape), "dtype": str(a.dtype)}
    sig = (rank, "array")
    for _ in range(spec["nd_exprs"]):
        e = rand_expr(rng, shape, rank)
        h.read(da, a, e, "array", sig, rep)
        if rng.random() < 0.25:
            a = h.write(da, da, a, None, e, "array", sig, rep, rng)
    for _ in range(spec["nd_windows"]):
        if rng.random() < 0.75:
            st = [rng.randint(0, s) for s in shape]
            ex = [rng.randint(0, s - o) for s, o in zip(shape, st)]
        else:
            st = [rng.randint(-1, s + 1) for s in shape]
            ex = [rng.randint(0, s + 2) for s in shape]
        v, win = make_view(h, da, a, st, ex, (rank,), rep)
        if v is None:
            continue
        wsig = (rank, "view", tuple(win_class(s, e, n) for s, e, n in zip(st, ex, shape)))
        vrep = dict(rep, window={"start": st, "extent": ex})
        for _2 in range(spec["win_exprs"]):
            e = rand_expr(rng, ex, rank)
            h.read(v, a[win], e, "view", wsig, vrep)
            if rng.random() < 0.3:
                a = h.write(da, v, a, win, e, "view", wsig, vrep, rng)
        # the SAME view object, after the array was written through other paths (the array itself, a second view on the same
        # window): a view is a window onto the array, not a copy of what it showed before
        whole = tuple(slice(None) for _x in ex)
        spellings = [slice(None), whole, Ellipsis]       # v[:], v[:, :], v[...]

        def whole_reads(when, seq):
            for e in spellings:
                h.read(v, a[win], e, "view", wsig + (when,), dict(vrep, sequence=seq))
            import numpy as np
            try:
                got = np.asarray(v)
                buf = np.empty(a[win].shape, dtype=a.dtype)
                v.read_direct(buf)
                for how, g in (("np.asarray", got), ("read_direct", buf)):
                    if g.shape != a[win].shape or not np.array_equal(g, a[win]):
                        ctx.violation("read:view:stale_or_wrong_whole_window:%s:%s" % (how, when), dict(vrep, sequence=seq, got=g, expected=a[win]), dict(rep, op="window"))
            except Exception as exn:
                ctx.violation("read:view:whole_window_raises_%s:%s" % (type(exn).__name__, when), dict(vrep, error=repr(exn)[:200]), dict(rep, op="window"))
        whole_reads("whole", "whole read")
        a = h.write(da, da, a, None, Ellipsis, "array", sig, rep, rng)
        whole_reads("after_write_through_array", "whole read, write through the array, whole read")
        try:
            v2 = da.get_slice(st, ex)
            if v2.valid and a[win].size:
                a = h.write(da, v2, a, win, whole, "view", wsig, vrep, rng)
                whole_reads("after_write_through_second_view", "write through a second view, whole read through the first")
                ctx.count("stateful_view_sequences")
        except Exception as exn:
            ctx.observe("second_view_not_available", repr(exn)[:100])


def run_shard(spec, ctx):
    h = H(ctx)
    rng = ctx.rng("c06")
    try:
        jobs = [("r1", n) for n in range(0, spec["rank1_max"] + 1)]
        for r in (2, 3, 4):
            for shp in SHAPES[r]:
                jobs.append(("nd", shp))
        # every shard takes a slice of the job list; rank-1 jobs are exhaustive and run exactly once overall,
        # nd jobs are re-sampled by every shard with its own rng
        ctx.guarded("numpy_integer_indices", numpy_integer_indices, h, rng)
        for ji, (kind, arg) in enumerate(jobs):
            if kind == "r1":
                if ji % NSHARDS == spec["i"] % NSHARDS:
                    ctx.guarded("rank1", rank1, h, arg, rng, spec, arg <= 3)
            else:
                if (ji + spec["i"]) % 4 == 0 or ctx.tier == "thorough":
                    ctx.guarded("ranknd", ranknd, h, arg, rng, spec)
    finally:
        h.close()


def replay(w, ctx):
    h = H(ctx)
    try:
        np = h.np
        shape = tuple(w["shape"])
        da, a = h.array(shape, w.get("dtype", "float64"))
        rep = {"shape": list(shape), "dtype": str(a.dtype)}
        obj, model, win, label = da, a, None, "array"
        if w.get("window"):
            st, ex = w["window"]["start"], w["window"]["extent"]
            v, win = make_view(h, da, a, st, ex, ("replay",), rep)
            if w.get("op") == "window" or v is None:
                ctx.case(("replay", "window"))
                return
            obj, model, label = v, a[win], "view"
            rep = dict(rep, window=w["window"])
        if w.get("op") == "window":
            return
        e = expr_from_json(w["expr"])
        if w["op"] == "read":
            h.read(obj, model, e, label, ("replay",), rep)
        else:
            for _ in range(6):   # scalar/array choice is random in the original run
                a = h.write(da, obj, a, win, e, label, ("replay",), rep, ctx.rng("replay", _))
    finally:
        h.close()
