import importlib


def load(check_id):
    return importlib.import_module("nixmon.checks." + check_id.lower())
