"""C17 - flush() and close() make everything written so far survive a process kill.

A child process drives a random history, takes the whole-file snapshot S, calls
flush() / close() / leaves a `with` block, stores S in a side file, and kills
itself with SIGKILL without any further API call.  The parent then opens the
file read-only and read-write and compares the snapshots with S.
Control children are killed WITHOUT flushing: the monitor must see that omission
(otherwise it could not see a missing flush either, and the run is inconclusive).
"""
import json
import os
import signal
import subprocess
import sys

ID = "C17"
LEVEL = "fault_enumeration"
TECHNIQUE = "fault injection: writer child killed with SIGKILL right after flush()/close()/with-exit returned; whole-file snapshot taken in the child compared with snapshots after reopening RO and RW in the parent; un-flushed control children prove observability"
RULE = ("Case = one (history, crash point) pair: a random history of 30-100 valid operations grown with array appends "
        "(1-20 appends of up to 4000 elements, compressed and uncompressed) has a flush/close point after ~8% of the "
        "operations (dense histories: after 30-60%, so that often a single data write / append / deletion / link change lies between two flushes; 30% of the histories run with automatic timestamps off) and at the end; EVERY such point of a history is a crash point and gets its own child, killed by "
        "SIGKILL immediately after the call returned (quick tier: at most 6 spread points per history are killed; all are flushed).  Distinct by (kind of point flush|close|with, file compression, "
        "operation kinds executed since the previous point, grown-by bucket); trivial = none.")
ASSUMPTIONS = ["a process kill (SIGKILL) is what is injected, not power loss: data handed to the operating system counts as on disk",
               "the snapshot S is taken immediately before the flush/close call (reads do not modify the file)",
               "control children (no flush before the kill) must be detected as different or unreadable, else the run is inconclusive"]

NSHARDS = 16
TIMEOUT = {"quick": 1500, "thorough": 7200}


def plan(tier, seed):
    n = 2 if tier == "quick" else 40
    # "strace": the first N histories of a shard are additionally run under strace (thorough tier; NIXMON_C17_STRACE=N forces it)
    st = int(os.environ.get("NIXMON_C17_STRACE", "0")) or (3 if tier == "thorough" else 0)
    return [{"i": i, "histories": n, "big": tier == "thorough", "cap": 6 if tier == "quick" else 30, "strace": st} for i in range(NSHARDS)]


# ------------------------------------------------------------------------------------------
# child
# ------------------------------------------------------------------------------------------
def child_main(argv):
    """argv: path sidefile seed shard case point(int or -1=count only) control(0/1) big(0/1)"""
    path, side, seed, shard, case, point, control, big = argv[0], argv[1], int(argv[2]), int(argv[3]), int(argv[4]), int(argv[5]), int(argv[6]), int(argv[7])
    from .. import env, clock, gen, snapshot
    from ..core import Ctx
    import numpy as np
    nix = env.import_nixio()
    clock.install()
    ctx = Ctx("C17", "quick", seed, shard, NSHARDS)
    rng = ctx.rng("c17", case)
    comp = rng.choice(list(nix.Compression))
    L = rng.randint(30, 100)
    # flush density: sparse (many operations of all kinds between two points) or dense (often a single data write,
    # append, deletion or link change between two flushes - operations that touch no timestamp)
    pflush = rng.choice([0.08, 0.08, 0.3, 0.6])
    if pflush > 0.1:
        L = rng.randint(20, 45)
    auto_off = rng.random() < 0.3
    points = []
    since = set()
    grown = 0
    f = nix.File.open(path, nix.FileMode.Overwrite, compression=comp)
    # some writers use the file as a context manager for the whole session: their flush() calls happen INSIDE the with block
    in_with = rng.random() < 0.35
    if in_with:
        f.__enter__()
    B = gen.Builder(nix, f, rng)
    if auto_off:
        f.auto_update_timestamps = False
    k = 0
    for i in range(L):
        name, exc = B.step()
        if exc is None and not name.endswith(":skip"):
            since.add(name)
        if rng.random() < 0.15:
            # growth: append repeatedly to one array
            das = [d for b in B.f.blocks for d in b.data_arrays if len(d.shape) == 1 and d.dtype.kind == "f"]
            if not das:
                b0 = B.f.blocks[0] if len(B.f.blocks) else B.f.create_block("grow", "t")
                das = [b0.create_data_array(B.uniq(b0.data_arrays, "grow"), "t", data=np.arange(3.0),
                                            compression=rng.choice(list(nix.Compression)))]
            d = rng.choice(das)
            if len(d.polynom_coefficients) == 0 and not d.expansion_origin:
                n_app = rng.randint(1, 20)
                for _ in range(n_app):
                    chunk = np.arange(float(rng.randint(1, 4000 if big else 300)))
                    d.append(chunk)
                    grown += len(chunk)
                since.add("grow")
        if rng.random() < pflush or i == L - 1:
            kind = rng.choice(["flush", "flush", "close", "with"])
            if k == point:
                snap = snapshot.snapshot(nix, B.f)
                rec = {"table": snap.table, "kind": kind, "comp": str(comp), "since": sorted(since), "grown": grown,
                       "entities": len(snap.table), "step": i, "flush_density": pflush, "auto_timestamps": not auto_off,
                       "flushes_before": sum(1 for x in points if x == "flush"), "inside_with_block": in_with}
                mfd = None
                if os.environ.get("NIXMON_C17_MARKER"):
                    mfd = os.open(os.environ["NIXMON_C17_MARKER"], os.O_WRONLY | os.O_CREAT | os.O_APPEND)
                    os.write(mfd, b"NIXMON-ENTER\n")
                if not control:
                    if kind == "flush":
                        B.f.flush()
                    elif kind == "close":
                        B.f.close()
                    else:
                        B.f.__exit__(None, None, None)
                if mfd is not None:
                    os.write(mfd, b"NIXMON-RETURN\n")
                with open(side, "w") as fh:
                    json.dump(rec, fh)
                    fh.flush()
                    os.fsync(fh.fileno())
                os.kill(os.getpid(), signal.SIGKILL)
            points.append(kind)
            k += 1
            since = set()
            if kind != "flush":
                B.f.close()
                B.f = nix.File.open(path, nix.FileMode.ReadWrite, compression=comp)
                if in_with:
                    B.f.__enter__()
                if auto_off:
                    B.f.auto_update_timestamps = False
            else:
                B.f.flush()
    with open(side, "w") as fh:
        json.dump({"points": points}, fh)
    B.f.close()


# ------------------------------------------------------------------------------------------
# parent
# ------------------------------------------------------------------------------------------
def spawn(path, side, seed, shard, case, point, control, big, timeout=600, strace_log=None):
    from .. import env
    for p in (side,):
        try:
            os.remove(p)
        except OSError:
            pass
    e = dict(os.environ)
    e["PYTHONPATH"] = env.VERIF + os.pathsep + e.get("PYTHONPATH", "")
    cmd = [env.PYTHON, "-W", "ignore", "-m", "nixmon.checks.c17", path, side, str(seed), str(shard), str(case),
           str(point), str(int(control)), str(int(big))]
    if strace_log:
        # system-call trace of the writer: every write-like call with the path of its file descriptor (-y)
        e["NIXMON_C17_MARKER"] = strace_log + ".marker"
        cmd = ["strace", "-f", "-qq", "-y", "-e", "trace=pwrite64,pwritev,write,writev,ftruncate,fsync,fdatasync", "-o", strace_log] + cmd
    p = subprocess.run(cmd, cwd=env.VERIF, env=e, stdout=subprocess.PIPE,
                       stderr=subprocess.STDOUT, timeout=timeout)
    rec = None
    if os.path.exists(side):
        with open(side) as fh:
            rec = json.load(fh)
    return p.returncode, rec, p.stdout.decode("utf-8", "replace")[-1500:]


def judge_strace(ctx, log, path, rec, rep):
    """What reached the operating system, and when: write-like system calls on the NIX file before the call, between the
    call's entry and its return, and between its return and the kill."""
    marker = log + ".marker"
    phase, n = "before", {"before": 0, "during": 0, "after": 0}
    try:
        with open(log, errors="replace") as fh:
            for line in fh:
                if marker in line and "NIXMON-ENTER" in line:
                    phase = "during"
                elif marker in line and "NIXMON-RETURN" in line:
                    phase = "after"
                elif "<%s>" % path in line and line.split("(")[0].split()[-1] in ("pwrite64", "pwritev", "write", "writev", "ftruncate"):
                    n[phase] += 1
    except OSError as e:
        ctx.harness_errors.append({"where": "strace", "error": repr(e)})
        return
    if phase != "after":
        ctx.harness_errors.append({"where": "strace", "error": "markers not found in the trace (phase=%s)" % phase})
        return
    ctx.count("strace:children_traced")
    ctx.count("strace:write_syscalls_before_the_call", n["before"])
    ctx.count("strace:write_syscalls_inside_%s" % rec["kind"], n["during"])
    ctx.count("strace:%s_calls_that_wrote" % rec["kind"] if n["during"] else "strace:%s_calls_with_nothing_left_to_write" % rec["kind"])
    if n["after"]:
        # data handed to the operating system only AFTER flush()/close() returned was not safe when the call returned
        ctx.violation("%s:writes_to_the_file_after_the_call_returned" % rec["kind"], dict(rep, write_syscalls_after_return=n["after"], during=n["during"]), rep)
    if n["before"] + n["during"] == 0:
        ctx.violation("%s:nothing_ever_written_to_the_file" % rec["kind"], dict(rep, since=rec.get("since")), rep)


def judge(ctx, nix, path, rec, rep, control):
    """Open the killed writer's file RO and RW and compare with the child's snapshot.  Returns True if identical."""
    from .. import snapshot

    class S:
        pass
    s0 = S()
    s0.table = rec["table"]
    same = True
    for mode in (nix.FileMode.ReadOnly, nix.FileMode.ReadWrite):
        try:
            f = nix.File.open(path, mode)
        except Exception as e:
            if not control:
                ctx.violation("%s:reopen_%s_fails_%s" % (rec["kind"], mode, type(e).__name__), dict(rep, error=repr(e)[:300], point_kind=rec["kind"]), rep)
            return False
        try:
            s1 = snapshot.snapshot(nix, f)
            d = snapshot.diff(s0, s1)
            if d:
                same = False
                if not control:
                    for x in d[:4]:
                        what = x.get("field") or x.get("change")
                        ctx.violation("%s:state_differs_after_kill:%s.%s" % (rec["kind"], x["entity"].split(":")[0], what),
                                      dict(rep, diff=x, mode=mode, point_kind=rec["kind"], since=rec["since"]), rep)
        except Exception as e:
            same = False
            if not control:
                ctx.violation("%s:snapshot_after_kill_raises_%s" % (rec["kind"], type(e).__name__), dict(rep, error=repr(e)[:300]), rep)
        finally:
            try:
                f.close()
            except Exception:
                pass
    return same


def run_shard(spec, ctx):
    from .. import env
    nix = env.import_nixio()
    path = env.scratch_file("c17_%d.nix" % ctx.shard)
    side = env.scratch_file("c17_%d.json" % ctx.shard)
    for k in range(spec["histories"]):
        rc, rec, out = spawn(path, side, ctx.seed, ctx.shard, k, -1, False, spec["big"])
        if rc != 0 or rec is None:
            ctx.observe("history_could_not_be_enumerated", out[-300:])
            ctx.count("histories_skipped")
            continue
        npoints = len(rec["points"])
        ctx.count("crash_points_enumerated", npoints)
        pts = list(range(npoints))
        cap = spec.get("cap", 6)
        if npoints > cap:       # dense histories: a spread sample of the points is killed (every point is still flushed in the child)
            r = ctx.rng("c17pts", k)
            pts = sorted(set(r.sample(range(npoints - 1), cap - 1)) | {npoints - 1})
            ctx.count("crash_points_not_killed", npoints - len(pts))
        for pt in pts:
            rep = {"case": k, "shard": ctx.shard, "point": pt, "big": spec["big"]}
            traced = bool(spec.get("strace")) and k < spec["strace"]
            slog = env.scratch_file("c17_%d.strace" % ctx.shard) if traced else None
            rc, rec2, out = spawn(path, side, ctx.seed, ctx.shard, k, pt, False, spec["big"], strace_log=slog)
            if rc != -signal.SIGKILL or rec2 is None or "table" not in rec2:
                ctx.harness_errors.append({"where": "child", "error": "rc=%s out=%s" % (rc, out[-500:])})
                continue
            judge(ctx, nix, path, rec2, rep, False)
            if traced:
                judge_strace(ctx, slog, path, rec2, rep)
                for x in (slog, slog + ".marker"):
                    try:
                        os.remove(x)
                    except OSError:
                        pass
            ctx.count("children_killed")
            ctx.count("point:" + rec2["kind"])
            ctx.count("ops_since_previous_point:%s" % min(len(rec2["since"]), 5))
            ctx.count("points_inside_a_with_block" if rec2.get("inside_with_block") else "points_outside_a_with_block")
            ctx.case((rec2["kind"], rec2["comp"], tuple(rec2["since"]), min(rec2["grown"] // 2000, 5), rec2.get("auto_timestamps"), rec2.get("inside_with_block")),
                     sample={"flushes_before_this_point": rec2.get("flushes_before"), "automatic_timestamps": rec2.get("auto_timestamps"), "point_kind": rec2["kind"], "compression": rec2["comp"], "ops_since_previous_point": rec2["since"],
                             "elements_appended": rec2["grown"], "entities": rec2["entities"]})
        # one control per history: killed at its last point WITHOUT the flush
        if npoints:
            rc, rec3, out = spawn(path, side, ctx.seed, ctx.shard, k, npoints - 1, True, spec["big"])
            if rc == -signal.SIGKILL and rec3 and "table" in rec3:
                same = judge(ctx, nix, path, rec3, {"control": True}, True)
                ctx.count("controls_run")
                if not same:
                    ctx.count("controls_detected")


def finish(m, tier):
    c = m["counters"]
    if c.get("controls_run", 0) and not c.get("controls_detected", 0):
        m["inconclusive"].append("no un-flushed control child was detected: the monitor cannot see a missing flush")


def replay(w, ctx):
    from .. import env
    nix = env.import_nixio()
    path = env.scratch_file("c17_replay.nix")
    side = env.scratch_file("c17_replay.json")
    ctx.case(("replay",))
    rc, rec, out = spawn(path, side, ctx.seed, w.get("shard", 0), w["case"], w["point"], False, w.get("big", False))
    if rec and "table" in rec:
        judge(ctx, nix, path, rec, w, False)


if __name__ == "__main__":
    child_main(sys.argv[1:])
