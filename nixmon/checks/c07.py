"""C07 - dimension descriptors map positions to sample indices by order, exactly.

Oracle: exact rational arithmetic.  Parameters are generated as decimal strings;
the oracle computes with Fractions, the library gets float(str).  Positions are
either exact samples or at least 5% of an interval away from one and |index| <=
2000, so the library's documented np.isclose band is never entered (ruling A3).
"""
from fractions import Fraction as F

ID = "C07"
LEVEL = "exploration"
TECHNIQUE = "runtime oracle on the real descriptors stored in a real file: exact rational order semantics vs index_of/range_indices/position_at/tick_at/axis"
EXHAUSTIVE = ("sub-grid enumerated completely on every run: 9 intervals x 10 offsets x positions {i+f: i in -3..8, "
              "f in 0,1/4,1/2,3/4} x 3 modes for sampled dimensions; all (a,b) pairs of that position grid x 2 slice "
              "modes for 6 (interval, offset) pairs; all set dimensions with 0..6 labels x 15 positions x all pairs")
RULE = ("Cases: one call of index_of / range_indices / position_at / tick_at / axis on a sampled, range or set "
        "dimension appended to a data array in a scratch file.  Generated from decimal strings (intervals 9, offsets 10, "
        "tick vectors of length 1-8 with repeats/negatives, 0-6 labels), positions by class (on a sample, between at "
        "0.1-0.9, before the first by <1 or >=1 interval, exactly zero, first, last, beyond).  Distinct by (dimension "
        "kind, function, mode, position class, offset sign, interval); trivial = none (every call is judged).")
ASSUMPTIONS = ["positions within the library's documented np.isclose tolerance band of a sample are only generated as exact samples (A3); |index| <= 2000",
               "sampling intervals are positive (A12)",
               "range_indices(a,b) with a > b may return None or raise IndexError (A9)",
               "label-less set dimensions and sampled dimensions are unbounded to the right"]

IVALS = ["1", "2", "0.5", "0.25", "0.1", "0.3", "0.001", "3", "1000"]
OFFS = ["0", "0.1", "-0.1", "2.5", "-2.5", "3", "-3", "3.1", "1000", None]
LAYER_B = ['C07']      # monitors of nixmon/passive/plugin.py run over the repository's own tests in the thorough tier
NSHARDS = 16


def plan(tier, seed):
    n = 1 if tier == "quick" else 12
    return [{"i": i, "range_dims": 24 * n, "rand_rounds": 30 * n} for i in range(NSHARDS)]


def frac_part(k):
    return k - (k.numerator // k.denominator)


def in_band(k):
    fr = frac_part(k)
    return fr != 0 and (fr < F("0.05") or fr > F("0.95"))


def expect_index(coord, n, p, mode_name, hi=2600):
    """coord(i): exact coordinate (non-decreasing); n: number of samples or None (unbounded)."""
    top = hi if n is None else n
    if mode_name in ("LessOrEqual", "Less"):
        best = None
        for i in range(top):
            c = coord(i)
            if (c <= p) if mode_name == "LessOrEqual" else (c < p):
                best = i
            else:
                break
        return best
    for i in range(top):
        if coord(i) >= p:
            return i
    return None


def expect_range(coord, n, a, b, inclusive, hi=2600):
    top = hi if n is None else n
    first = last = None
    for i in range(top):
        c = coord(i)
        if c >= a and ((c <= b) if inclusive else (c < b)):
            if first is None:
                first = i
            last = i
        elif c > b:
            break
    return None if first is None else (first, last)


def classify_got(exp, got):
    if exp is None and got is not None:
        return "returned_but_none_exists"
    if exp is not None and got is None:
        return "raised_but_exists"
    if isinstance(exp, int) and isinstance(got, int):
        d = got - exp
        return "off_by_%+d" % d if abs(d) <= 2 else "wrong_index"
    return "wrong"


class Harness:
    def __init__(self, ctx):
        from .. import env
        self.nix = env.import_nixio()
        import numpy as np
        self.np = np
        self.ctx = ctx
        self.path = env.scratch_file("c07_%d.nix" % ctx.shard)
        self.f = self.nix.File.open(self.path, self.nix.FileMode.Overwrite)
        self.b = self.f.create_block("b", "t")
        self.MODES = [self.nix.IndexMode.Less, self.nix.IndexMode.LessOrEqual, self.nix.IndexMode.GreaterOrEqual]
        self.SMODES = [self.nix.SliceMode.Exclusive, self.nix.SliceMode.Inclusive]
        self.n_arrays = 0

    def close(self):
        try:
            self.f.close()
        except Exception:
            pass

    def new_array(self, n):
        self.n_arrays += 1
        if self.n_arrays % 150 == 0:     # keep id look-ups cheap
            self.f.close()
            self.f = self.nix.File.open(self.path, self.nix.FileMode.Overwrite)
            self.b = self.f.create_block("b", "t")
        return self.b.create_data_array("a%d" % self.n_arrays, "t", data=self.np.arange(float(max(n, 1))))

    # -- judged calls -------------------------------------------------------
    def index_of(self, kind, dim, coord, n, p, mode, pcls, extra, rep):
        ctx = self.ctx
        exp = expect_index(coord, n, p, mode.name)
        ctx.case((kind, "index_of", mode.name, pcls) + extra)
        try:
            got = dim.index_of(float(p), mode)
            got = int(got)
        except IndexError:
            got = None
        except Exception as e:
            ctx.violation("%s.index_of:%s:%s:raises_%s" % (kind, mode.name, pcls, type(e).__name__),
                          dict(rep, position=str(p), mode=mode.name, error=repr(e)), dict(rep, fn="index_of", p=str(p), mode=mode.name))
            return
        if got != exp:
            ctx.violation("%s.index_of:%s:%s:%s" % (kind, mode.name, pcls, classify_got(exp, got)),
                          dict(rep, position=str(p), mode=mode.name, expected=exp, got=got),
                          dict(rep, fn="index_of", p=str(p), mode=mode.name))

    def range_indices(self, kind, dim, coord, n, a, b, smode, cls, extra, rep):
        ctx = self.ctx
        ctx.case((kind, "range_indices", smode.name, cls) + extra)
        r = dict(rep, fn="range_indices", a=str(a), b=str(b), mode=smode.name)
        try:
            got = dim.range_indices(float(a), float(b), smode)
        except IndexError:
            got = "IndexError"
        except Exception as e:
            ctx.violation("%s.range_indices:%s:raises_%s" % (kind, smode.name, type(e).__name__),
                          dict(r, error=repr(e)), r)
            return
        if a > b:
            if got not in (None, "IndexError"):
                ctx.violation("%s.range_indices:%s:reversed_interval_yields" % (kind, smode.name), dict(r, got=repr(got)), r)
            return
        exp = expect_range(coord, n, a, b, smode.name == "Inclusive")
        if got == "IndexError":
            got_n = "IndexError"
        else:
            got_n = None if got is None else (int(got[0]), int(got[1]))
        if got_n != exp:
            if exp is None:
                shape = "nonempty_but_none_exists"
            elif got_n in (None, "IndexError"):
                shape = "empty_but_exists"
            else:
                shape = "start%+d_end%+d" % (max(-2, min(2, got_n[0] - exp[0])), max(-2, min(2, got_n[1] - exp[1])))
            ctx.violation("%s.range_indices:%s:%s:%s" % (kind, smode.name, cls, shape),
                          dict(r, expected=exp, got=got_n), r)


def sampled_positions(Fi, Fo, idxs):
    pos = []
    for i in idxs:
        c = Fo + i * Fi
        pos.append(("on_first" if i == 0 else "on", c))
        for fr in ("0.1", "0.5", "0.9"):
            pos.append(("between", c + F(fr) * Fi))
    pos += [("before_lt1", Fo - F("0.5") * Fi), ("before_ge1", Fo - 3 * Fi), ("before_ge1", Fo - F("1.5") * Fi),
            ("zero", F(0))]
    return [(c, p) for c, p in pos if not in_band((p - Fo) / Fi) and (p - Fo) / Fi <= 2000]


def run_sampled(h, spec, ctx, rng):
    combos = [(iv, off) for iv in IVALS for off in OFFS]
    da = h.new_array(5)
    sd = da.append_sampled_dimension(1.0)
    for ci, (iv, off) in enumerate(combos):
        if ci % NSHARDS != spec["i"]:
            continue
        sd.sampling_interval = float(iv)
        sd.offset = None if off is None else float(off)
        Fi, Fo = F(iv), F(off or "0")
        coord = lambda i, Fo=Fo, Fi=Fi: Fo + i * Fi
        sign = "neg" if Fo < 0 else ("zero" if Fo == 0 else "pos")
        extra = (sign, iv)
        rep = {"dim": "sampled", "interval": iv, "offset": off}
        # exhaustive position sub-grid
        grid = [Fo + (i + fq) * Fi for i in range(-3, 9) for fq in (F(0), F(1, 4), F(1, 2), F(3, 4))]
        for p in grid:
            k = (p - Fo) / Fi
            pcls = ("on_first" if k == 0 else "on") if k.denominator == 1 and k >= 0 else ("before" if k < 0 else "between")
            for m in h.MODES:
                h.index_of("sampled", sd, coord, None, p, m, pcls, extra, rep)
        # far indices and class-driven positions
        pos = sampled_positions(Fi, Fo, [0, 1, 2, 7, 60, rng.randint(100, 1999), 1999])
        for pcls, p in pos:
            for m in h.MODES:
                h.index_of("sampled", sd, coord, None, p, m, pcls, extra, rep)
        # range_indices: exhaustive over the grid for 6 combos, sampled otherwise
        if ci % 15 == 0:
            small = [Fo + (i + fq) * Fi for i in range(-2, 5) for fq in (F(0), F(1, 2))]
            pairs = [(a, b) for a in small for b in small]
            ctx.count("sampled_range_pairs_exhaustive", len(pairs))
        else:
            pts = [p for _, p in pos] + grid
            pairs = [(rng.choice(pts), rng.choice(pts)) for _ in range(spec["rand_rounds"] * 2)]
        for a, b in pairs:
            cls = "reversed" if a > b else ("point" if a == b else ("a_before" if a < Fo else "inside"))
            for sm in h.SMODES:
                h.range_indices("sampled", sd, coord, None, a, b, sm, cls, extra, rep)
        # position_at / round trip / axis
        for i in [0, 1, 5, 100, rng.randint(2, 1999)]:
            ctx.case(("sampled", "position_at", sign, iv))
            try:
                pa = sd.position_at(i)
                if abs(F(float(pa)) - coord(i)) > F(1, 10 ** 9) * max(1, abs(coord(i))):
                    ctx.violation("sampled.position_at:wrong", dict(rep, i=i, got=float(pa), expected=str(coord(i))), dict(rep, fn="position_at", i=i))
                back = int(sd.index_of(pa))
                if back != i:
                    ctx.violation("sampled.roundtrip:index_of(position_at(i))", dict(rep, i=i, pos=float(pa), got=back), dict(rep, fn="position_at", i=i))
            except Exception as e:
                ctx.violation("sampled.position_at:raises_%s" % type(e).__name__, dict(rep, i=i, error=repr(e)), dict(rep, fn="position_at", i=i))
        for start, cnt in [(None, 4), (0, 1), (3, 5), (17, 2)]:
            ctx.case(("sampled", "axis", sign, iv, start is None))
            try:
                ax = sd.axis(cnt) if start is None else sd.axis(cnt, start)
                s0 = start or 0
                ok = len(ax) == cnt and all(abs(F(float(ax[j])) - coord(s0 + j)) <= F(1, 10 ** 9) * max(1, abs(coord(s0 + j))) for j in range(cnt))
                if not ok:
                    ctx.violation("sampled.axis:wrong", dict(rep, start=start, count=cnt, got=[float(x) for x in ax]), dict(rep, fn="axis", start=start, count=cnt))
            except Exception as e:
                ctx.violation("sampled.axis:raises_%s" % type(e).__name__, dict(rep, start=start, count=cnt, error=repr(e)), dict(rep, fn="axis", start=start, count=cnt))


def tick_class(ticks, p):
    if p < ticks[0]:
        return "before"
    if p > ticks[-1]:
        return "after"
    if p in ticks:
        c = ticks.count(p)
        if c > 1:
            return "on_repeated"
        if p == ticks[0]:
            return "on_first"
        if p == ticks[-1]:
            return "on_last"
        return "on"
    return "between"


def check_range_dim(h, ctx, rng, ticks, rounds):
    n = len(ticks)
    da = h.new_array(n)
    rd = da.append_range_dimension([float(t) for t in ticks])
    coord = lambda i: ticks[i]
    tsig = (n, len(set(ticks)) < n, ticks[0] < 0)
    rep = {"dim": "range", "ticks": [str(t) for t in ticks]}
    cand = set()
    for t in ticks:
        cand |= {t, t - F("0.25"), t + F("0.25")}
    cand |= {ticks[0] - 3, ticks[-1] + 3}
    for p in sorted(cand):
        for m in h.MODES:
            h.index_of("range", rd, coord, n, p, m, tick_class(ticks, p), tsig, rep)
    cl = sorted(cand)
    pairs = [(a, b) for a in cl for b in cl] if len(cl) <= 8 else [(rng.choice(cl), rng.choice(cl)) for _ in range(rounds)]
    for a, b in pairs:
        cls = "reversed" if a > b else ("point" if a == b else tick_class(ticks, a) + "-" + tick_class(ticks, b))
        for sm in h.SMODES:
            h.range_indices("range", rd, coord, n, a, b, sm, cls, tsig[1:], rep)
    for i in range(n):
        ctx.case(("range", "tick_at", tsig))
        try:
            if F(float(rd.tick_at(i))) != F(float(ticks[i])):
                ctx.violation("range.tick_at:wrong", dict(rep, i=i, got=float(rd.tick_at(i))), dict(rep, fn="tick_at", i=i))
            back = int(rd.index_of(rd.tick_at(i)))
            if ticks[back] != ticks[i]:
                ctx.violation("range.roundtrip:index_of(tick_at(i))", dict(rep, i=i, got=back), dict(rep, fn="tick_at", i=i))
            elif ticks.count(ticks[i]) == 1 and back != i:
                ctx.violation("range.roundtrip:index_of(tick_at(i))", dict(rep, i=i, got=back), dict(rep, fn="tick_at", i=i))
        except Exception as e:
            ctx.violation("range.tick_at:raises_%s" % type(e).__name__, dict(rep, i=i, error=repr(e)), dict(rep, fn="tick_at", i=i))
    ctx.case(("range", "axis", tsig))
    try:
        for start, cnt in [(0, n), (n // 2, n - n // 2), (0, 1)]:
            ax = list(rd.axis(cnt, start))
            if [float(x) for x in ax] != [float(t) for t in ticks[start:start + cnt]]:
                ctx.violation("range.axis:wrong", dict(rep, start=start, count=cnt, got=[float(x) for x in ax]), dict(rep, fn="axis", start=start, count=cnt))
        try:
            rd.axis(n + 1)
            ctx.violation("range.axis:beyond_ticks_not_refused", dict(rep, count=n + 1), dict(rep, fn="axis", start=0, count=n + 1))
        except IndexError:
            pass
    except Exception as e:
        ctx.violation("range.axis:raises_%s" % type(e).__name__, dict(rep, error=repr(e)), dict(rep, fn="axis", start=0, count=n))


def check_range_dim_restated(h, ctx, rng, ticks):
    """The descriptor object that has already answered queries keeps answering from the ticks the FILE holds: the ticks are
    replaced through another handle of the same dimension (and, for a dimension that takes its ticks from an array, by
    writing to that array); the first object must follow."""
    n = len(ticks)
    da = h.new_array(n)
    linked = rng.random() < 0.5
    if linked:
        da.write_direct(h.np.array([float(t) for t in ticks]))
        rd = da.append_range_dimension_using_self()
    else:
        rd = da.append_range_dimension([float(t) for t in ticks])
    rep = {"dim": "range", "ticks": [str(t) for t in ticks], "restated": "linked" if linked else "setter_on_other_handle"}
    for p in (ticks[0], ticks[-1] + 1):
        h.index_of("range", rd, lambda i: ticks[i], n, p, h.MODES[1], tick_class(ticks, p), ("restated", "before"), rep)
    new = [t * 2 + 1 for t in ticks]
    if linked:
        da.write_direct(h.np.array([float(t) for t in new]))
    else:
        da.dimensions[0].ticks = [float(t) for t in new]
    rep2 = dict(rep, new_ticks=[str(t) for t in new])
    cand = sorted({new[0], new[-1], new[0] - 1, new[-1] + 1} | {t + F("0.25") for t in new[:2]})
    for p in cand:
        for m in h.MODES:
            h.index_of("range", rd, lambda i: new[i], n, p, m, tick_class(new, p), ("restated", "after", linked), rep2)
    for sm in h.SMODES:
        h.range_indices("range", rd, lambda i: new[i], n, new[0], new[-1], sm, "restated", (linked,), rep2)
    ctx.count("restated_tick_sequences")


def gen_ticks(rng):
    n = rng.randint(1, 8)
    base = rng.choice([-5, 0, 0, 3, F("-0.5"), 1000])
    ticks, cur = [], F(base)
    steps = [F(0), F(1), F("0.5"), F(2), F("0.1"), F("0.001"), F(100)]
    for _ in range(n):
        ticks.append(cur)
        cur += rng.choice(steps)
    return ticks


def check_set_dim(h, ctx, nl, own_before_link=None):
    da = h.new_array(max(nl, 1))
    if own_before_link is None:
        st = da.append_set_dimension(["l%d" % i for i in range(nl)] if nl else None)
    else:
        # a category dimension that had labels of its own (another number of them) and then takes its labels from a text array: the
        # categories are the linked ones
        st = da.append_set_dimension(["own%d" % i for i in range(own_before_link)])
        src = h.b.create_data_array("labels_for_a%d" % h.n_arrays, "t", dtype=h.nix.DataType.String,
                                    data=h.np.array(["c%d" % i for i in range(nl)], dtype=object))
        st.link_data_array(src, [-1])
        if tuple(st.labels) != tuple("c%d" % i for i in range(nl)):
            ctx.violation("set.linked_labels_differ", {"got": list(st.labels), "expected": ["c%d" % i for i in range(nl)]}, {"dim": "set", "labels": nl, "own": own_before_link})
    n = nl if nl else None
    coord = lambda i: F(i)
    rep = {"dim": "set", "labels": nl, "own_labels_before_link": own_before_link}
    cand = [F(x) for x in ["-1", "-0.5", "0", "0.5", "1", "1.5", "2", "3", "3.5", "5", "5.5", "6", "7", "10", "1999"]]
    for p in cand:
        pcls = "before" if p < 0 else ("zero" if p == 0 else (("on" if p.denominator == 1 else "between") + ("_beyond" if n is not None and p > n - 1 else "")))
        for m in h.MODES:
            h.index_of("set", st, coord, n, p, m, pcls, (nl, own_before_link), rep)
    for a in cand:
        for b in cand:
            cls = "reversed" if a > b else ("point" if a == b else "interval")
            for sm in h.SMODES:
                h.range_indices("set", st, coord, n, a, b, sm, cls, (nl, a < 0, n is not None and b > n - 1, own_before_link), rep)


def run_shard(spec, ctx):
    h = Harness(ctx)
    rng = ctx.rng("c07")
    try:
        ctx.guarded("sampled", run_sampled, h, spec, ctx, rng)
        fixed = [[F(0)], [F(1), F(1)], [F(-2), F(-1), F(0)], [F(0), F(0), F(0), F(1)], [F("0.5"), F("1.5"), F("1.5"), F(4)]]
        for ti in range(spec["range_dims"]):
            ticks = fixed[ti] if (ti < len(fixed) and spec["i"] == 0) else gen_ticks(rng)
            ctx.guarded("range", check_range_dim, h, ctx, rng, ticks, spec["rand_rounds"])
            if all(x < y for x, y in zip(ticks[:-1], ticks[1:])):
                ctx.guarded("range_restated", check_range_dim_restated, h, ctx, rng, ticks)
        for nl in [0, 1, 2, 3, 4, 6]:
            if (nl % NSHARDS) == spec["i"] or ctx.tier == "thorough":
                ctx.guarded("set", check_set_dim, h, ctx, nl)
        for nl, own in [(2, 5), (5, 2), (3, 3), (1, 4), (6, 1)]:
            if ((nl + own) % NSHARDS) == spec["i"] or ctx.tier == "thorough":
                ctx.guarded("set_linked", check_set_dim, h, ctx, nl, own)
    finally:
        h.close()


def replay(w, ctx):
    h = Harness(ctx)
    try:
        if w["dim"] == "set" and w.get("own_labels_before_link") is not None:
            ctx.case(("replay",))
            check_set_dim(h, ctx, int(w["labels"]), int(w["own_labels_before_link"]))
            return
        if w["dim"] == "sampled":
            da = h.new_array(5)
            d = da.append_sampled_dimension(float(w["interval"]))
            d.offset = None if w["offset"] is None else float(w["offset"])
            Fi, Fo = F(w["interval"]), F(w["offset"] or "0")
            coord, n = (lambda i: Fo + i * Fi), None
        elif w["dim"] == "range":
            ticks = [F(t) for t in w["ticks"]]
            da = h.new_array(len(ticks))
            d = da.append_range_dimension([float(t) for t in ticks])
            coord, n = (lambda i: ticks[i]), len(ticks)
        else:
            nl = w["labels"]
            da = h.new_array(max(nl, 1))
            d = da.append_set_dimension(["l%d" % i for i in range(nl)] if nl else None)
            coord, n = (lambda i: F(i)), (nl or None)
        rep = {k: w[k] for k in w if k in ("dim", "interval", "offset", "ticks", "labels")}
        if w.get("fn") == "index_of":
            mode = getattr(h.nix.IndexMode, w["mode"])
            h.index_of(w["dim"], d, coord, n, F(w["p"]), mode, "replay", (), rep)
        elif w.get("fn") == "range_indices":
            mode = getattr(h.nix.SliceMode, w["mode"])
            h.range_indices(w["dim"], d, coord, n, F(w["a"]), F(w["b"]), mode, "replay", (), rep)
        else:
            ctx.case(("replay", "unsupported"))
            ctx.observe("replay_unsupported_fn", w.get("fn"))
    finally:
        h.close()
