"""C02 - closing and reopening a file reproduces the complete observable state.

Two oracles of different kind:
  differential: canonical snapshot just before close() == snapshot after File.open (RO or RW)
  model:        snapshot == shadow model built from the successful calls
                (last write wins, deleted things stay deleted, creation order)
The snapshotter itself asserts path agreement (an entity reached by two paths must give the same record).
"""
ID = "C02"
LEVEL = "exploration"
TECHNIQUE = "runtime monitoring of random API histories: whole-file canonical snapshot before close vs after reopen (differential) and vs a shadow model of the calls made (last-write-wins, creation order, deletions)"
RULE = ("Case = one random history of 25-120 valid API operations (about 70 operation kinds over all entity kinds, "
        "targets fetched through random access paths: name/id/index/negative index/group link) with a close+reopen "
        "(RO or RW alternating) after ~6% of the operations and at the end; at each such point the whole-file "
        "snapshot (every public readable property of every entity, data digests, ordered containers, role links) is "
        "compared before/after and against the shadow model.  Distinct by (set of entity kinds present, set of "
        "operation kinds executed, reopen modes used); trivial = histories with fewer than 5 executed operations.")
ASSUMPTIONS = ["only valid calls are issued (refused calls are C12's business); a history in which a valid call raises is kept for the differential oracle but its model comparison is dropped (counted)",
               "names are drawn from a pool without UUID-looking names (those are C03's subject)",
               "timestamps come from a logical clock installed over nixio.util.now_int"]

NSHARDS = 16


def plan(tier, seed):
    n = 14 if tier == "quick" else 150
    return [{"i": i, "histories": n, "maxlen": 120 if tier == "quick" else 300} for i in range(NSHARDS)]


def run_history(ctx, nix, path, rng, rep, maxlen, stop_after=None):
    from .. import clock, gen, snapshot
    from ..core import raised_in_library
    clk = clock.install()
    f = nix.File.open(path, nix.FileMode.Overwrite)
    st = {"f": f}
    B = gen.Builder(nix, f, rng)
    tainted = False
    executed, modes = set(), set()
    nops = 0
    L = rng.randint(25, maxlen)
    if stop_after is not None:
        L = min(L, stop_after)
    try:
        for i in range(L):
            name, exc = B.step()
            if exc is None:
                if not name.endswith(":skip"):
                    executed.add(name)
                    nops += 1
            else:
                ctx.observe("valid_op_raised:%s:%s" % (name, type(exc).__name__), {"error": repr(exc)[:200], "history": rep})
                ctx.count("ops_raised")
                tainted = True
            if rng.random() < 0.06 or i == L - 1:
                ctx.count("reopen_points")
                s1 = snapshot.snapshot(nix, st["f"])
                for p in s1.problems:
                    if p["kind"] == "path_disagreement":
                        flds = ",".join(sorted(x[0] for x in p["fields"]))
                        ctx.violation("path_disagreement:%s:%s" % (p["entity"].split(":")[0], flds), dict(p, history=rep, step=i, log=B.log[-12:]), dict(rep, stop_after=i + 1))
                    elif p["kind"] == "walk_raises":
                        ctx.violation("walk_raises:%s:%s" % (p["where"].split("/")[-1].split("[")[0], p["error"]), dict(p, history=rep, step=i, log=B.log[-12:]), dict(rep, stop_after=i + 1))
                    else:
                        ctx.violation("ghost_entity:%s" % p["entity"].split(":")[0], dict(p, history=rep, step=i, log=B.log[-12:]), dict(rep, stop_after=i + 1))
                if not tainted:
                    for mech, det in B.compare(s1):
                        ctx.violation(mech, dict(det, history=rep, step=i, log=B.log[-12:]), dict(rep, stop_after=i + 1))
                    ctx.count("model_comparisons")
                else:
                    ctx.count("model_comparisons_dropped")
                st["f"].close()
                mode = rng.choice([nix.FileMode.ReadOnly, nix.FileMode.ReadWrite])
                modes.add(mode)
                try:
                    st["f"] = nix.File.open(path, mode)
                except Exception as e:
                    ctx.violation("reopen_fails:%s:%s" % (mode, type(e).__name__), dict(rep, step=i, error=repr(e), log=B.log[-12:]), dict(rep, stop_after=i + 1))
                    st["f"] = None
                    return nops, executed, modes, {}
                s2 = snapshot.snapshot(nix, st["f"])
                d = snapshot.diff(s1, s2)
                for x in d:
                    if "field" in x:
                        mech = "reopen_diff:%s.%s" % (x["entity"].split(":")[0], x["field"])
                    else:
                        mech = "reopen_diff:%s:%s" % (x["entity"].split(":")[0], x["change"])
                    ctx.violation(mech, dict(x, mode=mode, history=rep, step=i, log=B.log[-12:]), dict(rep, stop_after=i + 1))
                ctx.count("entities_compared", len(s1.table))
                kinds = s1.kinds()
                if mode == nix.FileMode.ReadOnly:
                    st["f"].close()
                    st["f"] = nix.File.open(path, nix.FileMode.ReadWrite)
                B.f = st["f"]
        return nops, executed, modes, kinds
    finally:
        try:
            if st["f"] is not None:
                st["f"].close()
        except Exception:
            pass


def run_shard(spec, ctx):
    from .. import env
    nix = env.import_nixio()
    path = env.scratch_file("c02_%d.nix" % ctx.shard)
    for k in range(spec["histories"]):
        rng = ctx.rng("c02", k)
        rep = {"case": k, "shard": ctx.shard, "maxlen": spec["maxlen"]}
        r = ctx.guarded("history", run_history, ctx, nix, path, rng, rep, spec["maxlen"])
        if r:
            nops, executed, modes, kinds = r
            if nops >= 5:
                ctx.case((tuple(sorted(kinds)), tuple(sorted(executed)), tuple(sorted(modes))),
                         sample={"ops_executed": nops, "kinds": kinds, "op_kinds": sorted(executed)[:40]})
            else:
                ctx.case(None)
            ctx.count("ops_executed", nops)
        else:
            ctx.case(None)


def replay(w, ctx):
    from .. import env
    nix = env.import_nixio()
    ctx.shard = w.get("shard", 0)
    ctx.case(("replay",))
    run_history(ctx, nix, env.scratch_file("c02_replay.nix"), ctx.rng("c02", w["case"]), w, w.get("maxlen", 120), w.get("stop_after"))
