"""C02 - closing and reopening a file reproduces the complete observable state.

Two oracles of different kind:
  differential: canonical snapshot just before close() == snapshot after File.open (RO or RW)
  model:        snapshot == shadow model built from the successful calls
                (last write wins, deleted things stay deleted, creation order)
The snapshotter itself asserts path agreement (an entity reached by two paths must give the same record).
"""
ID = "C02"
LEVEL = "exploration"
TECHNIQUE = "runtime monitoring of random API histories: whole-file canonical snapshot before close vs after reopen (differential) and vs a shadow model of the calls made (last-write-wins, creation order, deletions)"
RULE = ("Case = one random history of 25-120 valid API operations (about 70 operation kinds over all entity kinds, "
        "targets fetched through random access paths: name/id/index/negative index/group link) with a close+reopen "
        "(RO or RW alternating) after ~6% of the operations and at the end; at each such point the whole-file "
        "snapshot (every public readable property of every entity, data digests, ordered containers, role links) is "
        "compared before/after and against the shadow model.  Distinct by (set of entity kinds present, set of "
        "operation kinds executed, reopen modes used); trivial = histories with fewer than 5 executed operations.  Plus a fixed grid (32 cases): every numeric "
        "attribute (ticks, position, extent, coefficients, origin, offset, interval, uncertainty) x {absent, set at creation} x "
        "{whole numbers then fractions, fractions then whole numbers}, read back through three handles and after reopening.  Data frames carry a row model (cell writes, "
        "row and column appends, and two-handle sequences in which one handle changes the table's structure and the other writes).")
ASSUMPTIONS = ["only valid calls are issued (refused calls are C12's business); a history in which a valid call raises is kept for the differential oracle but its model comparison is dropped (counted)",
               "names are drawn from a pool without UUID-looking names (those are C03's subject)",
               "timestamps come from a logical clock installed over nixio.util.now_int"]

NSHARDS = 16


def plan(tier, seed):
    n = 14 if tier == "quick" else 150
    return [{"i": i, "histories": n, "maxlen": 120 if tier == "quick" else 300} for i in range(NSHARDS)]


def run_history(ctx, nix, path, rng, rep, maxlen, stop_after=None):
    from .. import clock, gen, snapshot
    from ..core import raised_in_library
    clk = clock.install()
    f = nix.File.open(path, nix.FileMode.Overwrite)
    st = {"f": f}
    B = gen.Builder(nix, f, rng)
    tainted = False
    executed, modes = set(), set()
    nops = 0
    L = rng.randint(25, maxlen)
    if stop_after is not None:
        L = min(L, stop_after)
    try:
        for i in range(L):
            name, exc = B.step()
            if exc is None:
                if not name.endswith(":skip"):
                    executed.add(name)
                    nops += 1
            else:
                ctx.observe("valid_op_raised:%s:%s" % (name, type(exc).__name__), {"error": repr(exc)[:200], "history": rep})
                ctx.count("ops_raised")
                tainted = True
            if rng.random() < 0.06 or i == L - 1:
                ctx.count("reopen_points")
                s1 = snapshot.snapshot(nix, st["f"])
                for p in s1.problems:
                    if p["kind"] == "path_disagreement":
                        flds = ",".join(sorted(x[0] for x in p["fields"]))
                        ctx.violation("path_disagreement:%s:%s" % (p["entity"].split(":")[0], flds), dict(p, history=rep, step=i, log=B.log[-12:]), dict(rep, stop_after=i + 1))
                    elif p["kind"] == "walk_raises":
                        ctx.violation("walk_raises:%s:%s" % (p["where"].split("/")[-1].split("[")[0], p["error"]), dict(p, history=rep, step=i, log=B.log[-12:]), dict(rep, stop_after=i + 1))
                    else:
                        ctx.violation("ghost_entity:%s" % p["entity"].split(":")[0], dict(p, history=rep, step=i, log=B.log[-12:]), dict(rep, stop_after=i + 1))
                if not tainted:
                    for mech, det in B.compare(s1):
                        ctx.violation(mech, dict(det, history=rep, step=i, log=B.log[-12:]), dict(rep, stop_after=i + 1))
                    ctx.count("model_comparisons")
                else:
                    ctx.count("model_comparisons_dropped")
                # what the handles that were kept alive during the session (creation results among them) say about the place of
                # their entity in the tree - to be compared with what fresh handles say after reopening
                kept_parents = {}
                for hid, hs in list(B.handles.items()):
                    if hid not in B.sh.alive:
                        continue        # never touch a handle of a deleted entity (use after delete is outside every statement)
                    for h in hs:
                        try:
                            if isinstance(h, nix.Section):
                                par = h.parent
                            elif isinstance(h, nix.Source):
                                par = h.parent_source
                            else:
                                continue
                            kept_parents.setdefault(hid, set()).add(None if par is None else par.id)
                        except Exception as e:
                            kept_parents.setdefault(hid, set()).add("raises:" + type(e).__name__)
                st["f"].close()
                mode = rng.choice([nix.FileMode.ReadOnly, nix.FileMode.ReadWrite])
                modes.add(mode)
                try:
                    st["f"] = nix.File.open(path, mode)
                except Exception as e:
                    ctx.violation("reopen_fails:%s:%s" % (mode, type(e).__name__), dict(rep, step=i, error=repr(e), log=B.log[-12:]), dict(rep, stop_after=i + 1))
                    st["f"] = None
                    return nops, executed, modes, {}
                s2 = snapshot.snapshot(nix, st["f"])
                d = snapshot.diff(s1, s2)
                for x in d:
                    if "field" in x:
                        mech = "reopen_diff:%s.%s" % (x["entity"].split(":")[0], x["field"])
                    else:
                        mech = "reopen_diff:%s:%s" % (x["entity"].split(":")[0], x["change"])
                    ctx.violation(mech, dict(x, mode=mode, history=rep, step=i, log=B.log[-12:]), dict(rep, stop_after=i + 1))
                if kept_parents:
                    B.f = st["f"]
                    fresh = {}
                    for sec, _c in B.walk_sections():
                        fresh[sec.id] = sec
                    for blk in st["f"].blocks:
                        for src, _c in B.walk_sources(blk):
                            fresh[src.id] = src
                    for hid, before in kept_parents.items():
                        h = fresh.get(hid)
                        if h is None:
                            continue
                        try:
                            par = h.parent if isinstance(h, nix.Section) else h.parent_source
                            after = None if par is None else par.id
                        except Exception as e:
                            after = "raises:" + type(e).__name__
                        ctx.count("kept_handle_parents_compared")
                        if before != {after}:
                            ctx.violation("reopen_diff:%s.parent:kept_handle_vs_reopened" % type(h).__name__,
                                          dict(entity=hid, name=h.name, kept_handles_said=sorted(map(str, before)), after_reopen=after, history=rep, step=i,
                                               log=B.log[-12:]), dict(rep, stop_after=i + 1))
                ctx.count("entities_compared", len(s1.table))
                kinds = s1.kinds()
                if mode == nix.FileMode.ReadOnly:
                    st["f"].close()
                    st["f"] = nix.File.open(path, nix.FileMode.ReadWrite)
                B.f = st["f"]
        return nops, executed, modes, kinds
    finally:
        try:
            if st["f"] is not None:
                st["f"].close()
        except Exception:
            pass


def overwrite_sweep(ctx, nix, path, only=None):
    """Last write wins whatever kind of number the attribute held before: every numeric attribute is written with whole
    numbers given as Python ints, then with fractions (and the other way round, and starting from 'absent'), and read back
    through the writing handle, through a second handle, and after reopening - compared as numbers."""
    import numpy as np
    INTS, FLOATS = [1, 2], [0.5, 1.25]

    def arr(f):
        return f.blocks[0].data_arrays["a"]
    ATTRS = {
        "RangeDimension.ticks": (lambda f: arr(f).dimensions[0], "ticks", True),
        "Tag.position": (lambda f: f.blocks[0].tags["t"], "position", True),
        "Tag.extent": (lambda f: f.blocks[0].tags["t"], "extent", True),
        "DataArray.polynom_coefficients": (lambda f: arr(f), "polynom_coefficients", True),
        "DataArray.expansion_origin": (lambda f: arr(f), "expansion_origin", False),
        "SampledDimension.offset": (lambda f: arr(f).dimensions[1], "offset", False),
        "SampledDimension.sampling_interval": (lambda f: arr(f).dimensions[1], "sampling_interval", False),
        "Property.uncertainty": (lambda f: f.sections[0].props["p"], "uncertainty", False),
    }
    cases = [(a, first, order) for a in sorted(ATTRS) for first in ("absent", "at_creation") for order in ("int_then_float", "float_then_int")]
    for ci, (aname, first, order) in enumerate(cases):
        if only is not None and ci != only:
            continue
        if only is None and ci % NSHARDS != ctx.shard % NSHARDS:
            continue
        get, field, vector = ATTRS[aname]
        v1, v2 = (INTS, FLOATS) if order == "int_then_float" else (FLOATS, INTS)
        if not vector:
            v1, v2 = v1[0], v2[0]
        rep = {"sweep": ci, "shard": ctx.shard}
        info = dict(rep, attribute=aname, first=first, order=order, values=[v1, v2])
        f = nix.File.open(path, nix.FileMode.Overwrite)
        try:
            b = f.create_block("b", "t")
            a = b.create_data_array("a", "t", data=np.arange(4.0).reshape(2, 2))
            a.append_range_dimension(v1 if (first == "at_creation" and aname == "RangeDimension.ticks") else None)
            if first == "at_creation" and aname.startswith("SampledDimension"):
                a.append_sampled_dimension(v1 if field == "sampling_interval" else 1.0, offset=v1 if field == "offset" else None)
            else:
                a.append_sampled_dimension(1.0)
            b.create_tag("t", "t", v1 if (first == "at_creation" and aname == "Tag.position") else [0.0, 0.0])
            f.create_section("s", "t").create_property("p", [1.0])
            obj = get(f)
            setattr(obj, field, v1)             # the first kind of number (for 'at_creation' a second time, through the setter)
            other = get(f)                      # a second handle, obtained before the overwrite
            getattr(other, field)
            setattr(obj, field, v2)

            def num(x):
                if x is None:
                    return None
                return [float(y) for y in x] if vector else float(x)
            want = num(v2)
            for who, h in (("writing_handle", obj), ("second_handle", other), ("fresh_handle", get(f))):
                got = num(getattr(h, field))
                ctx.count("overwrite_reads")
                if got != want:
                    ctx.violation("overwritten_value_not_read_back:%s:%s:%s" % (aname, order, who), dict(info, read=got, expected=want), rep)
            f.close()
            f = nix.File.open(path, nix.FileMode.ReadOnly)
            got = num(getattr(get(f), field))
            if got != want:
                ctx.violation("overwritten_value_not_read_back:%s:%s:after_reopen" % (aname, order), dict(info, read=got, expected=want), rep)
            ctx.case(("overwrite", aname, first, order))
        finally:
            try:
                f.close()
            except Exception:
                pass


def run_shard(spec, ctx):
    from .. import env
    nix = env.import_nixio()
    path = env.scratch_file("c02_%d.nix" % ctx.shard)
    ctx.guarded("overwrite_sweep", overwrite_sweep, ctx, nix, path)
    for k in range(spec["histories"]):
        rng = ctx.rng("c02", k)
        rep = {"case": k, "shard": ctx.shard, "maxlen": spec["maxlen"]}
        r = ctx.guarded("history", run_history, ctx, nix, path, rng, rep, spec["maxlen"])
        if r:
            nops, executed, modes, kinds = r
            if nops >= 5:
                ctx.case((tuple(sorted(kinds)), tuple(sorted(executed)), tuple(sorted(modes))),
                         sample={"ops_executed": nops, "kinds": kinds, "op_kinds": sorted(executed)[:40]})
            else:
                ctx.case(None)
            ctx.count("ops_executed", nops)
        else:
            ctx.case(None)


def replay(w, ctx):
    from .. import env
    nix = env.import_nixio()
    ctx.shard = w.get("shard", 0)
    ctx.case(("replay",))
    if "sweep" in w:
        ctx.case(("replay", 2))
        overwrite_sweep(ctx, nix, env.scratch_file("c02_replay.nix"), only=w["sweep"])
        return
    run_history(ctx, nix, env.scratch_file("c02_replay.nix"), ctx.rng("c02", w["case"]), w, w.get("maxlen", 120), w.get("stop_after"))
