"""C01 - array data is stored and returned exactly (type, shape, values).

Oracle: an in-memory NumPy model per array plus a written-mask (cells that were
never written have no specified content, ruling A6).  Comparison is bit-exact
(floats through their integer views, so NaN payloads and -0.0 count).
"""
ID = "C01"
LEVEL = "exploration"
TECHNIQUE = "runtime reference-model monitor: NumPy shadow array with written-mask, bit-exact comparison of every read path after every write/append/resize/reopen step"
RULE = ("Case = one data array driven through creation (3 paths) and 0-8 steps from {whole write, region assign, "
        "append along any axis, shrink, grow, close+reopen RO/RW}; after every step every read path (whole [:], [...], "
        "np.array, read_direct, iteration, get_slice by index, the .data alias, one element, one region, shape/len/size/dtype/data_type) is compared with the model; appends also along negative axes (NumPy's meaning or a clean refusal) and axes the array does not have (stored data must stay). "
        "Generated over 12 element types x rank 1-4 x extents 0-4 x 27 file/block/array compression triples, values "
        "from extremes (iinfo min/max, NaN, +-inf, -0.0, subnormal, non-ASCII/empty/long text).  Distinct by (dtype, "
        "rank, has zero extent, compression triple, creation path, multiset of step kinds); trivial = none.")
ASSUMPTIONS = ["cells never written (array created from shape only, or exposed by growing) have unspecified content (A6)",
               "values written have the array's own element type (A14)",
               "the element type the array was created with = dtype argument, else the data's dtype, else float64",
               "text arrays are created with DataType.String and read back as object arrays of str"]

NSHARDS = 16
DTYPES = ["uint8", "uint16", "uint32", "uint64", "int8", "int16", "int32", "int64", "float32", "float64", "bool", "text"]
STEPS = ["whole", "region", "append", "shrink", "grow", "reopen", "refused_append"]


def plan(tier, seed):
    n = 110 if tier == "quick" else 1500
    return [{"i": i, "cases": n, "grid": tier == "thorough"} for i in range(NSHARDS)]


def dclass(dt):
    if dt == "text":
        return "text"
    if dt == "bool":
        return "bool"
    return {"u": "uint", "i": "int", "f": "float"}[dt[0]]


def rand_index(rng, shape):
    """Index expression for a region assignment: per axis a slice or (30%) an integer (first, last, negative or random),
    sometimes only a prefix of the axes (a bare int or a short tuple), sometimes with an Ellipsis."""
    comps = []
    for s in shape:
        if s and rng.random() < 0.3:
            comps.append(rng.choice([0, s - 1, -1, -s, rng.randrange(s)]))
        else:
            comps.append(slice(*sorted([rng.randint(0, s), rng.randint(0, s)])))
    r = rng.random()
    if r < 0.2 and len(comps) > 1:
        k = rng.randint(1, len(comps) - 1)
        comps = comps[:k]
        if len(comps) == 1 and rng.random() < 0.6:
            return comps[0]
    elif r < 0.3 and len(comps) > 1:
        k = rng.randrange(len(comps))
        comps = comps[:k] + [Ellipsis] + comps[k + rng.randint(0, len(comps) - k):]
    elif r < 0.4 and len(comps) == 1:
        return comps[0]
    return tuple(comps)


def index_kind(sl):
    t = sl if isinstance(sl, tuple) else (sl,)
    k = set("int" if isinstance(x, int) else ("ellipsis" if x is Ellipsis else "slice") for x in t)
    return "+".join(sorted(k)) + ("" if isinstance(sl, tuple) else ":bare")


class Case:
    def __init__(self, ctx, nix, np, rng, path):
        self.ctx, self.nix, self.np, self.rng, self.path = ctx, nix, np, rng, path

    def values(self, dt, shape):
        np, rng = self.np, self.rng
        n = int(np.prod(shape))
        if dt == "text":
            pool = ["", "a", "üñí", "x y", "long" * 30, "∂", " lead", "trail ", "tab\tin", "Cafe\u0301", "\u2126", "\u1112\u1161\u11ab", "\U0001f9ea"]
            out = np.empty(n, dtype=object)
            for i in range(n):
                out[i] = rng.choice(pool)
            return out.reshape(shape)
        if dt == "bool":
            return np.array([rng.random() < 0.5 for _ in range(n)], dtype=np.bool_).reshape(shape)
        ndt = np.dtype(dt)
        if ndt.kind in "iu":
            ii = np.iinfo(ndt)
            pool = [ii.min, ii.max, 0, 1, ii.max - 1, ii.min + 1, 77]
            return np.array([rng.choice(pool) for _ in range(n)], dtype=ndt).reshape(shape)
        fi = np.finfo(ndt)
        pool = [np.nan, np.inf, -np.inf, -0.0, 0.0, fi.max, -fi.max, fi.tiny, fi.smallest_subnormal, 1.5, -2.25, 1 / 3]
        return np.array([rng.choice(pool) for _ in range(n)], dtype=ndt).reshape(shape)

    def same(self, got, model, mask, dt):
        np = self.np
        if got.shape != model.shape:
            return "shape"
        if dt == "text":
            if got.dtype != object:
                return "dtype"
            if not all(isinstance(x, str) for x in got.ravel()):
                return "element_type"
            return None if got[mask].tolist() == model[mask].tolist() else "values"
        if got.dtype != model.dtype:
            return "dtype"
        g, m = np.ascontiguousarray(got[mask]), np.ascontiguousarray(model[mask])
        if g.dtype.kind == "f":
            iv = np.uint32 if g.dtype.itemsize == 4 else np.uint64
            return None if np.array_equal(g.view(iv), m.view(iv)) else "values"
        return None if np.array_equal(g, m) else "values"


def run_case(ctx, nix, np, path, rng, recipe, rep):
    """recipe: dict(dt, shape, comp(3 names), cpath, steps=list or None (random))"""
    c = Case(ctx, nix, np, rng, path)
    dt, shape = recipe["dt"], tuple(recipe["shape"])
    cf, cb, ca = [getattr(nix.Compression, n) for n in recipe["comp"]]
    dcl = dclass(dt)
    f = nix.File.open(path, nix.FileMode.Overwrite, compression=cf)
    state = {"f": f}
    try:
        b = f.create_block("b", "t", compression=cb)
        nixdt = nix.DataType.String if dt == "text" else np.dtype(dt).type
        model = c.values(dt, shape)
        mask = np.ones(shape, dtype=bool)
        cpath = recipe["cpath"]
        try:
            if cpath == "data":
                da = b.create_data_array("d", "t", dtype=nixdt if dt == "text" else None, data=model, compression=ca)
            elif cpath == "data+dtype":
                da = b.create_data_array("d", "t", dtype=nixdt, data=model, compression=ca)
            else:
                da = b.create_data_array("d", "t", dtype=nixdt, shape=shape, compression=ca)
                if cpath == "shape+write":
                    if rng.random() < 0.5:
                        da.write_direct(model)
                    else:
                        da[...] = model
                else:  # shape+regions
                    vals = model
                    model = np.zeros(shape, dtype=object if dt == "text" else np.dtype(dt))
                    if dt == "text":
                        model[...] = ""
                    mask[...] = False
                    for _ in range(3):
                        sl = tuple(slice(*sorted([rng.randint(0, s), rng.randint(0, s)])) for s in shape)
                        if vals[sl].size:
                            da[sl] = vals[sl]
                            model[sl] = vals[sl]
                            mask[sl] = True
        except Exception as e:
            ctx.violation("create:%s:raises_%s:%s" % (cpath, type(e).__name__, dcl), dict(rep, error=repr(e)), rep)
            return ["create_failed"]
        try:
            ctx.observe("compression_resolution", None)
            comp = da._h5group.group["data"].compression
            ctx.count("filter:%s/%s/%s->%s" % (recipe["comp"][0], recipe["comp"][1], recipe["comp"][2], comp))
        except Exception:
            pass

        def verify(tag):
            # read through a handle fetched just now, or through a long-lived reading handle of this session
            # (which has read the array before the last writes)
            if state.get("reader_of") is not state["f"]:
                state["reader"], state["reader_of"] = state["f"].blocks[0].data_arrays[0], state["f"]
            d = state["f"].blocks[0].data_arrays[0] if rng.random() < 0.5 else state["reader"]
            ctx.count("verifications")

            def bad(path_, why, **kw):
                ctx.violation("%s:%s:%s" % (path_, why, dcl), dict(rep, after=tag, **kw), rep)
            try:
                if tuple(d.shape) != model.shape:
                    bad("shape", "wrong", got=list(d.shape), expected=list(model.shape))
                    return
                if len(d) != model.shape[0] or int(d.size) != model.size:
                    bad("len_size", "wrong", len=len(d), size=int(d.size))
                exp_dt = np.dtype(object) if dt == "text" else np.dtype(dt)
                if d.dtype != exp_dt:
                    bad("dtype", "wrong", got=str(d.dtype), expected=str(exp_dt))
                if dt == "text" and d.data_type != nix.DataType.String:
                    bad("data_type", "wrong", got=str(d.data_type))
            except Exception as e:
                bad("shape_dtype", "raises_" + type(e).__name__, error=repr(e))
                return
            for how in ("[:]", "[...]", "np.array", "read_direct"):
                try:
                    if how == "[:]":
                        got = d[:]
                    elif how == "[...]":
                        got = d[...]
                    elif how == "np.array":
                        got = np.array(d)
                    else:
                        got = np.empty(model.shape, dtype=object if dt == "text" else np.dtype(dt))
                        d.read_direct(got)
                    why = c.same(np.asarray(got), model, mask, dt)
                    if why:
                        bad("whole_read" + how, why, got=np.asarray(got), expected=model)
                except Exception as e:
                    bad("whole_read" + how, "raises_" + type(e).__name__, error=repr(e))
            if model.size:
                idx = tuple(rng.randrange(s) for s in model.shape)
                if mask[idx]:
                    try:
                        one = np.asarray(d[idx])
                        m1 = np.empty((1,), dtype=model.dtype)
                        m1[0] = model[idx]
                        why = c.same(one, m1, np.ones((1,), dtype=bool), dt)
                        if why:
                            bad("single_element", why, got=one, expected=m1, index=list(idx))
                    except Exception as e:
                        bad("single_element", "raises_" + type(e).__name__, error=repr(e), index=list(idx))
                sl = tuple(slice(*sorted([rng.randint(0, s), rng.randint(0, s)])) for s in model.shape)
                try:
                    reg = np.asarray(d[sl])
                    why = c.same(reg, model[sl], mask[sl], dt)
                    if why:
                        bad("region_read", why, region=repr(sl), got=reg, expected=model[sl])
                except Exception as e:
                    bad("region_read", "raises_" + type(e).__name__, error=repr(e), region=repr(sl))
            # further read paths: iteration over the first axis, the deprecated .data alias, get_slice by index
            if model.ndim and rng.random() < 0.5:
                try:
                    rows = [np.asarray(r) for r in d]
                    ctx.count("iterations")
                    if len(rows) != model.shape[0]:
                        bad("iteration", "length", got=len(rows), expected=model.shape[0])
                    for i, r in enumerate(rows):
                        if model.ndim == 1:
                            m1 = np.empty((1,), dtype=model.dtype)
                            m1[0] = model[i]
                            why = c.same(r, m1, mask[i:i + 1], dt)
                        else:
                            why = c.same(r, model[i], mask[i], dt)
                        if why:
                            bad("iteration", why, row=i, got=r, expected=model[i])
                            break
                except Exception as e:
                    bad("iteration", "raises_" + type(e).__name__, error=repr(e))
            if rng.random() < 0.4:
                try:
                    alias = d.data
                    why = c.same(np.asarray(alias[:]), model, mask, dt)
                    if why:
                        bad("data_alias", why, got=np.asarray(alias[:]), expected=model)
                except Exception as e:
                    bad("data_alias", "raises_" + type(e).__name__, error=repr(e))
            if model.size and rng.random() < 0.5:
                pos = [rng.randrange(s) for s in model.shape]
                ext = [rng.randint(1, s - p) for p, s in zip(pos, model.shape)]
                sl = tuple(slice(p, p + e) for p, e in zip(pos, ext))
                try:
                    view = d.get_slice(pos, ext)
                    ctx.count("get_slice_reads")
                    got = np.asarray(view[:])
                    why = c.same(got, model[sl], mask[sl], dt)
                    if why:
                        bad("get_slice_index", why, positions=pos, extents=ext, got=got, expected=model[sl])
                except Exception as e:
                    bad("get_slice_index", "raises_" + type(e).__name__, error=repr(e), positions=pos, extents=ext)
            # raw h5py second witness
            try:
                raw = d._h5group.group["data"]
                if tuple(raw.shape) != model.shape:
                    bad("raw_dataset", "shape", got=list(raw.shape))
            except Exception:
                ctx.count("raw_witness_unavailable")

        verify("create")
        steps = recipe.get("steps")
        nsteps = len(steps) if steps is not None else rng.randint(0, 8)
        done = []
        for si in range(nsteps):
            op = steps[si] if steps is not None else rng.choice(STEPS)
            done.append(op)
            try:
                if op == "whole":
                    model = c.values(dt, model.shape)
                    mask = np.ones(model.shape, dtype=bool)
                    if rng.random() < 0.5:
                        da[...] = model
                    else:
                        da.write_direct(model)
                elif op == "region":
                    if model.size:
                        sl = rand_index(rng, model.shape)
                        v = c.values(dt, np.shape(model[sl]))
                        if v.size:
                            ctx.count("region_assign:" + index_kind(sl))
                            da[sl] = v if v.shape else v[()]
                            model[sl] = v
                            mask[sl] = True
                elif op == "append":
                    ax = rng.randrange(model.ndim)
                    sh = list(model.shape)
                    sh[ax] = rng.randint(0, 3)
                    v = c.values(dt, tuple(sh))
                    r = rng.random()
                    if r < 0.15:
                        # the same axis counted from the end: NumPy's meaning, or a refusal that changes nothing
                        try:
                            da.append(v, axis=ax - model.ndim)
                            ctx.count("append_negative_axis:accepted")
                        except Exception:
                            ctx.count("append_negative_axis:refused")
                            done[-1] = "append_negative_axis_refused"
                            verify("append_negative_axis_refused")
                            continue
                        done[-1] = "append_negative_axis"
                        want = np.concatenate([model, v], axis=ax)
                        wmask = np.concatenate([mask, np.ones(v.shape, dtype=bool)], axis=ax)
                        got = np.asarray(da[...])
                        why = c.same(got, want, wmask, dt)
                        if why:
                            ctx.violation("append_negative_axis:accepted_but_not_appended:%s:%s" % (why, dcl),
                                          dict(rep, step=si, axis=ax - model.ndim, before=model, appended=v, got=got, done=done), rep)
                            return done
                    elif r < 0.25 and v.size:
                        # an axis the array does not have: nothing can be appended there, so the stored data must stay what it was
                        bad_ax = rng.choice([model.ndim, model.ndim + 1, -model.ndim - 1])
                        vv = c.values(dt, model.shape) if rng.random() < 0.5 and model.size else v
                        done[-1] = "append_axis_out_of_range"
                        try:
                            da.append(vv, axis=bad_ax)
                            ctx.count("append_axis_out_of_range:accepted")
                            got = np.asarray(da[...])
                            why = c.same(got, model, mask, dt)
                            if why:
                                ctx.violation("append_axis_out_of_range:accepted_and_stored_data_changed:%s:%s" % (why, dcl),
                                              dict(rep, step=si, axis=bad_ax, rank=model.ndim, before=model, appended=vv, got=got, done=done), rep)
                                return done
                        except Exception:
                            ctx.count("append_axis_out_of_range:refused")
                        verify("append_axis_out_of_range")
                        continue
                    else:
                        da.append(v, axis=ax)
                    model = np.concatenate([model, v], axis=ax)
                    mask = np.concatenate([mask, np.ones(v.shape, dtype=bool)], axis=ax)
                elif op == "refused_append":
                    # values no array can take (complex numbers, objects): the append must be refused, and what is read afterwards
                    # is still exactly what was written before
                    ax = rng.randrange(model.ndim)
                    sh = list(model.shape)
                    sh[ax] = rng.randint(1, 2)
                    if int(np.prod(sh)) == 0:
                        continue            # an empty block holds no value that could be refused
                    junk = rng.choice([np.full(sh, 1 + 2j), np.full(sh, None, dtype=object)])
                    if dt == "text" and junk.dtype == object:
                        junk = np.full(sh, 1 + 2j)
                    if dt == "text" and rng.random() < 0.6:
                        # text of the right kind that the file format cannot hold (embedded NUL, lone surrogate): refused at write time
                        junk = np.full(sh, "ok", dtype=object)
                        junk.flat[rng.randrange(junk.size)] = rng.choice(["nul\x00inside", "\ud800", "tail\udfff"])
                    try:
                        da.append(junk, axis=ax)
                        ctx.observe("unsupported_values_appended_without_error", {"dtype": dt, "values": str(junk.dtype)})
                        done.append("unsupported_append_accepted")
                        return done         # what such an array holds is not specified: the case ends here
                    except Exception:
                        ctx.count("refused_appends")
                elif op == "shrink":
                    ns = tuple(rng.randint(0, s) for s in model.shape)
                    da.data_extent = ns
                    sl = tuple(slice(0, s) for s in ns)
                    model, mask = model[sl].copy(), mask[sl].copy()
                elif op == "grow":
                    ns = tuple(s + rng.randint(0, 2) for s in model.shape)
                    da.data_extent = ns
                    nm = np.zeros(ns, dtype=model.dtype)
                    if dt == "text":
                        nm[...] = ""
                    nk = np.zeros(ns, dtype=bool)
                    sl = tuple(slice(0, s) for s in model.shape)
                    nm[sl], nk[sl] = model, mask
                    model, mask = nm, nk
                elif op == "reopen":
                    state["f"].close()
                    mode = rng.choice([nix.FileMode.ReadOnly, nix.FileMode.ReadWrite])
                    state["f"] = nix.File.open(path, mode)
                    verify("reopen_" + mode)
                    state["f"].close()
                    state["f"] = nix.File.open(path, nix.FileMode.ReadWrite)
                    da = state["f"].blocks[0].data_arrays[0]
            except Exception as e:
                ctx.violation("step:%s:raises_%s:%s" % (op, type(e).__name__, dcl), dict(rep, step=si, error=repr(e), done=done), rep)
                break
            verify(op)
        state["f"].close()
        state["f"] = nix.File.open(path, nix.FileMode.ReadOnly)
        verify("final_reopen")
        return done
    finally:
        try:
            state["f"].close()
        except Exception:
            pass


def gen_recipe(rng):
    rank = rng.randint(1, 4)
    hi = {1: 5, 2: 4, 3: 3, 4: 3}[rank]
    return {"dt": rng.choice(DTYPES), "shape": [rng.randint(0, hi) for _ in range(rank)],
            "comp": [rng.choice(["Auto", "No", "DeflateNormal"]) for _ in range(3)],
            "cpath": rng.choice(["data", "data+dtype", "shape+write", "shape+regions"]), "steps": None}


def run_shard(spec, ctx):
    from .. import env
    nix = env.import_nixio()
    import numpy as np
    path = env.scratch_file("c01_%d.nix" % ctx.shard)
    jobs = []
    for k in range(spec["cases"]):
        jobs.append(("rand", k))
    if spec["grid"]:
        comps = [[a, b, c] for a in ("Auto", "No", "DeflateNormal") for b in ("Auto", "No", "DeflateNormal") for c in ("Auto", "No", "DeflateNormal")]
        grid = [(dt, cp) for dt in DTYPES for cp in comps]
        for gi, (dt, cp) in enumerate(grid):
            if gi % NSHARDS == spec["i"]:
                jobs.append(("grid", {"dt": dt, "shape": [3, 2], "comp": cp, "cpath": "data",
                                      "steps": ["region", "append", "reopen", "grow", "region", "shrink", "append", "whole"]}))
    for kind, arg in jobs:
        if kind == "rand":
            rng = ctx.rng("c01", arg)
            recipe = gen_recipe(rng)
            rep = {"case": arg, "shard": ctx.shard, "recipe": recipe}
        else:
            rng = ctx.rng("c01grid", repr(arg))
            recipe = arg
            rep = {"case": "grid", "shard": ctx.shard, "recipe": recipe}
        done = ctx.guarded("case", run_case, ctx, nix, np, path, rng, recipe, rep) or []
        ctx.case((recipe["dt"], len(recipe["shape"]), 0 in recipe["shape"], tuple(recipe["comp"]), recipe["cpath"],
                  tuple(sorted(done))), sample={"recipe": recipe, "steps_done": done})
    if spec["grid"]:
        ctx.count("dtype_x_compression_grid_complete")


def replay(w, ctx):
    from .. import env
    from ..core import Ctx
    nix = env.import_nixio()
    import numpy as np
    path = env.scratch_file("c01_replay.nix")
    ctx.shard = w.get("shard", 0)
    if w["case"] == "grid":
        rng = ctx.rng("c01grid", repr(w["recipe"]))
    else:
        rng = ctx.rng("c01", w["case"])
        gen_recipe(rng)     # consume the same random draws as the original run
    ctx.case(("replay",))
    run_case(ctx, nix, np, path, rng, w["recipe"], w)
