"""Environment: where the repository under test lives, scratch space, interpreter.

Everything is checkout-relative; nothing is needed from /tmp between runs.
"""
import atexit
import os
import shutil
import sys
import tempfile

VERIF = os.path.dirname(os.path.dirname(os.path.abspath(__file__)))
REPO = os.environ.get("NIXPY_REPO", "/repo")
PYTHON = os.environ.get("NIXPY_PYTHON", "/venv/bin/python")
GUARD = "NIXPY_VERIF"
DEFAULT_SEED = 20261001

_scratch = None


def scratch_dir():
    """Per-process scratch directory (removed at exit)."""
    global _scratch
    if _scratch is None:
        base = os.environ.get("NIXMON_SCRATCH")
        if not base:
            base = "/dev/shm" if os.path.isdir("/dev/shm") and os.access("/dev/shm", os.W_OK) else None
        _scratch = tempfile.mkdtemp(prefix="nixmon-", dir=base)
        atexit.register(shutil.rmtree, _scratch, True)
    return _scratch


def scratch_file(name):
    return os.path.join(scratch_dir(), name)


def import_nixio():
    """Import nixio from the tree under test (always the current working tree)."""
    if REPO not in sys.path:
        sys.path.insert(0, REPO)
    import warnings
    warnings.simplefilter("ignore")
    import nixio
    got = os.path.dirname(os.path.dirname(os.path.abspath(nixio.__file__)))
    if os.path.realpath(got) != os.path.realpath(REPO):
        raise RuntimeError("nixio imported from %s, expected %s" % (got, REPO))
    return nixio
