"""Canonical snapshot of a NIX file through the public API, and a raw HDF5 scan.

snapshot(f) walks the public API from f.blocks / f.sections and returns a Snap:
  table   : "Kind:id" -> record   (every public readable property found by introspection,
            canonicalised, plus explicit data reads)
  edges are inside the records: containers are ordered lists of "Kind:id", role
  links are ("ref", "Kind:id")
  problems: path disagreements (an entity reached by two paths gave two records)
            and entities reachable only through links

The same walker serves C02, C04, C05, C11, C12, C17, C18, C20.
"""
import enum
import hashlib
import inspect

import numpy as np

DERIVED = {"parent", "parent_source", "parent_block", "referring_objects", "referring_blocks", "referring_groups",
           "referring_data_arrays", "referring_data_frames", "referring_tags", "referring_multi_tags", "referring_sources"}
# (derived = computed from links stored elsewhere: judged by C13, not part of an entity's own record; any public property whose
#  name starts with "referring_" is treated the same way, so a list added to the library later does not turn into a false alarm)
EXCLUDED = {"file", "data"}          # back reference; deprecated DataArray.data (returns self)
TIMESTAMPS = {"created_at", "updated_at"}

_prop_cache = {}


def public_properties(cls):
    if cls not in _prop_cache:
        names = []
        for name, m in inspect.getmembers(cls):
            if isinstance(m, property) and not name.startswith("_"):
                names.append(name)
        _prop_cache[cls] = names
    return _prop_cache[cls]


def digest_array(v):
    if v.dtype == object or v.dtype.kind in "OUS":
        body = repr(v.tolist()).encode("utf-8", "backslashreplace")
    elif v.dtype.fields:
        body = repr(v.tolist()).encode("utf-8", "backslashreplace")
    else:
        body = np.ascontiguousarray(v).tobytes()
    return hashlib.sha1(body).hexdigest()[:16]


class Snapper:
    def __init__(self, nix, with_data=True):
        self.nix = nix
        from nixio.entity import Entity
        from nixio.container import Container
        from nixio.dimensions import Dimension, DimensionLink
        from nixio.feature import Feature
        self.Entity, self.Container, self.Dimension, self.DimensionLink, self.Feature = Entity, Container, Dimension, DimensionLink, Feature
        self.with_data = with_data
        self.table = {}
        self.problems = []
        self.primary = set()
        self.expanded_primary = set()
        self.visited_via = {}
        self.counts = {"entities": 0, "path_agreements": 0}

    # -- canonical values -----------------------------------------------------------------
    def key(self, obj):
        kind = type(obj).__name__
        try:
            return "%s:%s" % (kind, obj.id)
        except Exception as e:
            return "%s:<id raises %s>" % (kind, type(e).__name__)

    def canon(self, v, depth=0):
        if isinstance(v, (self.Entity, self.Feature)):
            return ["ref", self.key(v)]
        if isinstance(v, self.DimensionLink):
            return ["dimlink", v.id]
        if isinstance(v, self.Dimension):
            return ["dim", type(v).__name__, v.index]
        if isinstance(v, self.Container):
            try:
                return ["container", [self.canon(x, depth + 1) for x in v]]
            except Exception as e:
                return ["container-raises", type(e).__name__]
        if isinstance(v, np.ndarray):
            return ["nd", str(v.dtype), list(v.shape), digest_array(v), repr(v.ravel()[:6].tolist())[:160]]
        if isinstance(v, np.generic):
            return [type(v).__name__, repr(v.item())]
        if isinstance(v, (tuple, list)):
            if depth > 4:
                return repr(v)[:100]
            return [self.canon(x, depth + 1) for x in v]
        if isinstance(v, float):
            return ["float", repr(v)]
        if isinstance(v, (str, int, bool, type(None))):
            return v
        if isinstance(v, bytes):
            return ["bytes", v.decode("utf-8", "backslashreplace")]
        if isinstance(v, np.dtype):
            return ["dtype", str(v)]
        if isinstance(v, type):
            return ["type", v.__name__]
        if isinstance(v, enum.Enum):
            return ["enum", str(v)]
        return ["other", type(v).__name__, repr(v)[:80]]

    def record(self, obj):
        rec = {}
        is_ds = isinstance(obj, (self.nix.DataArray, self.nix.DataFrame))
        for name in public_properties(type(obj)):
            if name == "file" or name in DERIVED or name.startswith("referring_") or (name == "data" and is_ds):
                continue
            try:
                rec[name] = self.canon(getattr(obj, name))
            except Exception as e:
                rec[name] = ["raises", type(e).__name__]
        return rec

    # -- walking ------------------------------------------------------------------------
    def note(self, key, rec, path):
        self.counts["entities"] += 1
        if key in self.table:
            self.counts["path_agreements"] += 1
            old = self.table[key]
            if old != rec:
                diffs = [(k, old.get(k), rec.get(k)) for k in sorted(set(old) | set(rec)) if old.get(k) != rec.get(k)]
                self.problems.append({"kind": "path_disagreement", "entity": key, "first_path": self.visited_via[key],
                                      "second_path": path, "fields": diffs[:4]})
            return False
        self.table[key] = rec
        self.visited_via[key] = path
        return True

    def visit(self, obj, path, primary):
        nix = self.nix
        key = self.key(obj)
        if primary:
            self.primary.add(key)
        rec = self.record(obj)
        if isinstance(obj, nix.DataArray):
            if self.with_data:
                try:
                    rec["__data__"] = self.canon(np.asarray(obj[:]) if len(obj.shape) else None)
                except Exception as e:
                    rec["__data__"] = ["raises", type(e).__name__]
            dims = []
            try:
                for d in obj.dimensions:
                    dr = self.record(d)
                    dr["__type__"] = type(d).__name__
                    try:
                        if d.has_link:
                            lk = d.dimension_link
                            dr["__link__"] = self.record(lk)
                            try:
                                grp = lk._linked_group()
                                dr["__link_target__"] = grp.get_attr("entity_id")
                            except Exception as e:
                                dr["__link_target__"] = ["raises", type(e).__name__]
                    except Exception as e:
                        dr["__link__"] = ["raises", type(e).__name__]
                    dims.append(dr)
            except Exception as e:
                dims = ["raises", type(e).__name__]
            rec["__dims__"] = dims
        elif isinstance(obj, nix.DataFrame):
            if self.with_data:
                try:
                    rows = obj[:] if len(obj) else []
                    rec["__rows__"] = [self.canon(tuple(r)) for r in rows]
                except Exception as e:
                    rec["__rows__"] = ["raises", type(e).__name__]
        elif isinstance(obj, nix.Section):
            try:
                rec["__dictview__"] = [k for k, _ in obj.items()]
            except Exception as e:
                rec["__dictview__"] = ["raises", type(e).__name__]
        fresh = self.note(key, rec, path)
        if primary and key not in self.expanded_primary:
            self.expanded_primary.add(key)      # (also when a link reached it first)
        elif not fresh:
            return key
        # children and link targets
        if isinstance(obj, nix.Block):
            for cname in ("sources", "data_arrays", "data_frames", "tags", "multi_tags", "groups"):
                self.walk_container(obj, cname, path, True)
            self.follow(obj, "metadata", path)
        elif isinstance(obj, nix.Group):
            for cname in ("data_arrays", "data_frames", "tags", "multi_tags", "sources"):
                self.walk_container(obj, cname, path, False)
            self.follow(obj, "metadata", path)
        elif isinstance(obj, (nix.DataArray, nix.DataFrame)):
            if hasattr(obj, "sources"):
                self.walk_container(obj, "sources", path, False)
            self.follow(obj, "metadata", path)
        elif isinstance(obj, (nix.Tag, nix.MultiTag)):
            self.walk_container(obj, "references", path, False)
            self.walk_container(obj, "sources", path, False)
            self.follow(obj, "metadata", path)
            if isinstance(obj, nix.MultiTag):
                self.follow(obj, "positions", path)
                self.follow(obj, "extents", path)
            try:
                for i, ft in enumerate(obj.features):
                    fk = self.key(ft)
                    frec = self.record(ft)
                    self.note(fk, frec, path + "/features[%d]" % i)
                    self.primary.add(fk)
                    self.follow(ft, "data", path + "/features[%d]" % i)
            except Exception as e:
                self.problems.append({"kind": "walk_raises", "where": path + "/features", "error": type(e).__name__})
        elif isinstance(obj, nix.Source):
            self.walk_container(obj, "sources", path, primary)
            self.follow(obj, "metadata", path)
        elif isinstance(obj, nix.Section):
            try:
                for i, p in enumerate(obj.props):
                    pk = self.key(p)
                    self.note(pk, self.record(p), path + "/props[%d]" % i)
                    if primary:
                        self.primary.add(pk)
            except Exception as e:
                self.problems.append({"kind": "walk_raises", "where": path + "/props", "error": type(e).__name__})
            self.walk_container(obj, "sections", path, primary)
            self.follow(obj, "link", path)
        return key

    def walk_container(self, obj, cname, path, primary):
        try:
            cont = getattr(obj, cname)
            for i, x in enumerate(cont):
                self.visit(x, "%s/%s[%d]" % (path, cname, i), primary)
        except Exception as e:
            self.problems.append({"kind": "walk_raises", "where": "%s/%s" % (path, cname), "error": type(e).__name__,
                                  "msg": str(e)[:100]})

    def follow(self, obj, attr, path):
        try:
            tgt = getattr(obj, attr)
        except Exception:
            return
        if tgt is None or not hasattr(tgt, "id"):
            return
        self.visit(tgt, "%s/%s" % (path, attr), False)

    def run(self, f):
        try:
            for i, s in enumerate(f.sections):
                self.visit(s, "sections[%d]" % i, True)
        except Exception as e:
            self.problems.append({"kind": "walk_raises", "where": "sections", "error": type(e).__name__, "msg": str(e)[:100]})
        try:
            for i, b in enumerate(f.blocks):
                self.visit(b, "blocks[%d]" % i, True)
        except Exception as e:
            self.problems.append({"kind": "walk_raises", "where": "blocks", "error": type(e).__name__, "msg": str(e)[:100]})
        frec = {}
        for name in public_properties(type(f)):
            if name in EXCLUDED:
                continue
            try:
                frec[name] = self.canon(getattr(f, name))
            except Exception as e:
                frec[name] = ["raises", type(e).__name__]
        frec.pop("mode", None)
        frec.pop("auto_update_timestamps", None)
        self.table["File:"] = frec
        for key in self.table:
            if key != "File:" and key not in self.primary:
                self.problems.append({"kind": "reachable_only_through_link", "entity": key, "path": self.visited_via.get(key)})
        snap = Snap(self.table, self.problems, self.counts)
        snap.paths = dict(self.visited_via)
        return snap


class Snap:
    def __init__(self, table, problems, counts):
        self.table, self.problems, self.counts = table, problems, counts

    def kinds(self):
        out = {}
        for k in self.table:
            out[k.split(":")[0]] = out.get(k.split(":")[0], 0) + 1
        return out

    def ids(self):
        return {k.split(":", 1)[1] for k in self.table if k != "File:"}


def snapshot(nix, f, with_data=True):
    return Snapper(nix, with_data).run(f)


def diff(a, b, ignore_fields=(), ignore_keys=(), limit=8):
    """List of differences between two snapshots' tables."""
    out = []
    for k in sorted(set(a.table) | set(b.table)):
        if k in ignore_keys:
            continue
        if k not in a.table:
            out.append({"entity": k, "change": "appeared"})
        elif k not in b.table:
            out.append({"entity": k, "change": "disappeared"})
        else:
            ra, rb = a.table[k], b.table[k]
            for fld in sorted(set(ra) | set(rb)):
                if fld in ignore_fields:
                    continue
                if ra.get(fld) != rb.get(fld):
                    out.append({"entity": k, "field": fld, "before": ra.get(fld), "after": rb.get(fld)})
        if len(out) >= limit:
            break
    return out


# ---------------------------------------------------------------------------------------
# raw HDF5 scan (independent of the library under test)
# ---------------------------------------------------------------------------------------
def rawscan(h5file):
    """Walk every link of an open h5py.File.  Returns dict:
       objects: addr -> {"kind", "entity_id", "attrs": digest, "data": digest, "paths": [..]}
       links:   list of (parent path, link name, target addr)
    Empty attribute-less groups are kept but flagged, so callers can ignore them."""
    import h5py
    objects, links = {}, []

    def info(obj):
        return h5py.h5o.get_info(obj.id).addr

    def attrs_digest(obj):
        items = []
        for k in sorted(obj.attrs.keys()):
            v = obj.attrs[k]
            if isinstance(v, np.ndarray):
                v = ["nd", str(v.dtype), v.tolist()]
            elif isinstance(v, bytes):
                v = v.decode("utf-8", "backslashreplace")
            elif isinstance(v, np.generic):
                v = v.item()
            items.append((k, repr(v)))
        return items

    def walk(grp, path):
        for name in grp.keys():
            try:
                child = grp[name]
            except Exception as e:
                links.append((path, name, "dangling:%s" % type(e).__name__))
                continue
            addr = info(child)
            links.append((path, name, addr))
            cpath = path.rstrip("/") + "/" + name
            if addr in objects:
                objects[addr]["paths"].append(cpath)
                continue
            ent = {"paths": [cpath], "attrs": attrs_digest(child)}
            eid = child.attrs.get("entity_id")
            if isinstance(eid, bytes):
                eid = eid.decode()
            ent["entity_id"] = eid
            if isinstance(child, h5py.Dataset):
                ent["kind"] = "dataset"
                try:
                    ent["data"] = [str(child.dtype), list(child.shape), digest_array(child[...]) if child.shape is not None else None]
                except Exception as e:
                    ent["data"] = ["unreadable", type(e).__name__]
                objects[addr] = ent
            else:
                ent["kind"] = "group"
                ent["nlinks"] = len(child)
                objects[addr] = ent
                walk(child, cpath)

    root_addr = info(h5file["/"])
    objects[root_addr] = {"paths": ["/"], "attrs": attrs_digest(h5file["/"]), "entity_id": None, "kind": "group",
                          "nlinks": len(h5file["/"])}
    walk(h5file["/"], "/")
    return {"objects": objects, "links": links}


def raw_entity_ids(scan):
    """entity_id -> list of object addrs carrying it (uniqueness check)."""
    out = {}
    for addr, o in scan["objects"].items():
        if o.get("entity_id"):
            out.setdefault(o["entity_id"], []).append(addr)
    return out


def raw_fingerprint(scan):
    """Order-insensitive content fingerprint that ignores empty attribute-less container groups
    (refused calls may leave an empty 'dimensions'/'features'/'properties' group behind, which no API call can see)."""
    objs = scan["objects"]
    # (a new member of the ROOT group is not such a container: the file layout has exactly /data and /metadata there)
    empty = {a for a, o in objs.items() if o["kind"] == "group" and o.get("nlinks") == 0 and not o["attrs"]
             and not any(p.count("/") == 1 and p not in ("/data", "/metadata") for p in o["paths"])}
    rows = []
    for addr, o in objs.items():
        if addr in empty:
            continue
        rows.append((sorted(o["paths"])[0], o["kind"], tuple(map(tuple, o["attrs"])), repr(o.get("data"))))
    lrows = sorted((p, n) for p, n, t in scans_links(scan) if t not in empty)
    return hashlib.sha1(repr((sorted(rows), lrows)).encode("utf-8", "backslashreplace")).hexdigest(), sorted(rows), lrows


def scans_links(scan):
    return scan["links"]
